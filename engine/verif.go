package main

// Harness vocabulary (body-less functions in the symbolic overlay).

import (
	"strings"
	"fmt"
	"go/types"

	blake2b "github.com/minio/blake2b-simd"
)

var verifIntrinsics = map[string]intrinsic{}

func regVerif(name string, f intrinsic) { verifIntrinsics[name] = f }

func strArg(v value) string {
	s, ok := v.(Str).concrete()
	if !ok {
		panic(engineError{"verif*: label/name must be concrete"})
	}
	return s
}

func (in *Interp) nondet(name string, w int) *Term {
	t := in.tc.Var(fmt.Sprintf("%s!%d", sanitize(name), len(in.nondets)), w)
	in.nondets = append(in.nondets, nondetRec{Name: name, W: w, t: t})
	return t
}

func sanitize(s string) string {
	b := []byte(s)
	for i, c := range b {
		if !(c >= 'a' && c <= 'z' || c >= 'A' && c <= 'Z' || c >= '0' && c <= '9' || c == '_') {
			b[i] = '_'
		}
	}
	return string(b)
}

func init() {
	regVerif("verifNondetU64", func(fr *frame, a []value) value { return fr.in.nondet(strArg(a[0]), 64) })
	regVerif("verifNondetInt", func(fr *frame, a []value) value { return fr.in.nondet(strArg(a[0]), 64) })
	regVerif("verifNondetI64", func(fr *frame, a []value) value { return fr.in.nondet(strArg(a[0]), 64) })
	regVerif("verifNondetU8", func(fr *frame, a []value) value { return fr.in.nondet(strArg(a[0]), 8) })
	regVerif("verifNondetBool", func(fr *frame, a []value) value {
		t := fr.in.nondet(strArg(a[0]), 8)
		return fr.in.tc.Not(fr.in.tc.Eq(t, fr.in.tc.Const(8, 0)))
	})
	// verifChoose(name, n): an arbitrary value in [0,n), concrete on each path
	regVerif("verifChoose", func(fr *frame, a []value) value {
		in := fr.in
		n := mustConc(a[1])
		t := in.nondet(strArg(a[0]), 64)
		if !in.assume(in.tc.bin(opBvULt, t, in.tc.Const(64, n)), "choose-range") {
			panic(pathAbort{"assume-false"})
		}
		v := in.concretize(t, "choose:"+strArg(a[0]), n)
		return in.tc.Const(64, v)
	})
	regVerif("verifBound", func(fr *frame, a []value) value {
		in := fr.in
		v, ok := in.cfg.Bounds[strArg(a[0])]
		if !ok {
			panic(engineError{"bound not set: " + strArg(a[0])})
		}
		return in.tc.Const(64, uint64(v))
	})
	regVerif("verifAssume", func(fr *frame, a []value) value {
		if !fr.in.assume(a[0].(*Term), "assume") {
			panic(pathAbort{"assume-false"})
		}
		return nil
	})
	regVerif("verifAssert", func(fr *frame, a []value) value {
		fr.in.assertCond(strArg(a[0]), a[1].(*Term))
		return nil
	})
	regVerif("verifClass", func(fr *frame, a []value) value {
		fr.in.pending = append(fr.in.pending, classCond{strArg(a[0]), a[1].(*Term)})
		return nil
	})
	regVerif("verifObserve", func(fr *frame, a []value) value {
		in := fr.in
		t := a[1].(*Term)
		in.events = append(in.events, event{Kind: "observe", Label: strArg(a[0]), t: t})
		return nil
	})
	regVerif("verifObserveStr", func(fr *frame, a []value) value {
		// strings are observed through their equality pattern only; natively a no-op too
		return nil
	})
	// verifLayer(id): uninterpreted function BV64 -> [0, Lmax]
	regVerif("verifLayer", func(fr *frame, a []value) value {
		in := fr.in
		id := a[0].(*Term)
		for _, e := range in.layerTab {
			if e.id == id {
				return e.layer
			}
		}
		l := in.tc.Var(fmt.Sprintf("layer!%d", len(in.layerTab)), 8)
		lmax := in.cfg.Bounds["Lmax"]
		cs := []*Term{in.tc.bin(opBvULe, l, in.tc.Const(8, uint64(lmax)))}
		for _, e := range in.layerTab {
			cs = append(cs, in.tc.Implies(in.tc.Eq(e.id, id), in.tc.Eq(e.layer, l)))
		}
		// keep the current model a model: give the new layer variable the value the model
		// already assigns to an equal id (saves a solver call)
		if in.model != nil && !in.replaying() {
			for _, e := range in.layerTab {
				if in.evalModel(in.tc.Eq(e.id, id)) != 0 {
					lv := in.evalModel(e.layer)
					// models are shared with queued sibling paths: copy before writing
					nm := make(Model, len(in.model)+1)
					for k, v := range in.model {
						nm[k] = v
					}
					nm[l.name] = lv
					in.model = nm
					in.modelMemo = nil
					break
				}
			}
		}
		in.layerTab = append(in.layerTab, layerEnt{id, l})
		if !in.assume(in.tc.And(cs...), "layer-fn") {
			panic(pathAbort{"assume-false"})
		}
		return l
	})
	// verifPanics(f): run f, report whether it panicked
	regVerif("verifPanics", func(fr *frame, a []value) (res value) {
		in := fr.in
		g := in.cur
		defer func() {
			r := recover()
			if r == nil {
				return
			}
			if tp, ok := r.(targetPanic); ok && in.cur == g {
				in.lastPanic = in.showPanic(tp.v)
				res = in.tc.tTrue
				return
			}
			panic(r)
		}()
		in.call(fr, 0, a[0], nil)
		return in.tc.tFalse
	})
	regVerif("verifYield", func(fr *frame, a []value) value { fr.in.yield("verifYield"); return nil })
	regVerif("verifSched", func(fr *frame, a []value) value {
		fr.in.schedOn = a[0].(*Term).isTrue()
		return nil
	})
	regVerif("verifHashName", func(fr *frame, a []value) value {
		in := fr.in
		inB := toBytes(a[0])
		h := in.newHashCall("blake2b256", inB, nil, 32)
		if cb, ok := allConc(inB); ok && h.conc == nil {
			d := blake2b.Sum256(cb)
			h.conc = d[:]
		}
		h2 := in.newHashCall("b64:RawURLEncoding", nil, h, 43)
		if h.conc != nil && h2.conc == nil {
			h2.conc = []byte(b64RawURL(h.conc))
		}
		return Str{in.hashBytes(h2)}
	})
	regVerif("verifPutU64", func(fr *frame, a []value) value {
		in := fr.in
		b := a[0].([]value)
		v := a[1].(*Term)
		if len(b) < 8 {
			in.targetPanicStr("verifPutU64: short buffer")
		}
		for i := 0; i < 8; i++ {
			b[i] = in.tc.Extract(v, 8*(7-i), 8)
		}
		return nil
	})
	regVerif("verifGetU64", func(fr *frame, a []value) value {
		in := fr.in
		b := toBytes(a[0])
		if len(b) < 8 {
			in.targetPanicStr("verifGetU64: short buffer")
		}
		r := b[0]
		for i := 1; i < 8; i++ {
			r = in.tc.Concat(r, b[i])
		}
		return r
	})
	regVerif("verifIsNameOf", func(fr *frame, a []value) value {
		// verifIsNameOf(name string, b []byte) bool == (name == verifHashName(b)), without forking
		in := fr.in
		ref := verifIntrinsics["verifHashName"](fr, []value{a[1]}).(Str)
		return in.strEq(a[0].(Str), ref)
	})
	regVerif("verifStrEq", func(fr *frame, a []value) value { return fr.in.strEq(a[0].(Str), a[1].(Str)) })
	regVerif("verifNote", func(fr *frame, a []value) value {
		fr.in.reached["note:"+strArg(a[0])] = true
		return nil
	})
	regVerif("verifSymbolic", func(fr *frame, a []value) value { return fr.in.tc.tTrue })
	regVerif("verifIte", func(fr *frame, a []value) value {
		return fr.in.tc.Ite(a[0].(*Term), a[1].(*Term), a[2].(*Term))
	})
	regVerif("verifAnd", func(fr *frame, a []value) value { return fr.in.tc.And(a[0].(*Term), a[1].(*Term)) })
	regVerif("verifOr", func(fr *frame, a []value) value { return fr.in.tc.Or(a[0].(*Term), a[1].(*Term)) })
	regVerif("verifIfaceEq", func(fr *frame, a []value) value {
		// deep equality of two interface{} values as one boolean term (no fork, no panic on slices)
		return fr.in.deepEqual(types.NewInterfaceType(nil, nil), a[0].(iface), a[1].(iface), 0)
	})
}

func b64RawURL(b []byte) string {
	const alpha = "ABCDEFGHIJKLMNOPQRSTUVWXYZabcdefghijklmnopqrstuvwxyz0123456789-_"
	var out []byte
	for i := 0; i < len(b); i += 3 {
		var v uint32
		n := len(b) - i
		if n > 3 {
			n = 3
		}
		for j := 0; j < 3; j++ {
			v <<= 8
			if j < n {
				v |= uint32(b[i+j])
			}
		}
		out = append(out, alpha[v>>18&63], alpha[v>>12&63])
		if n > 1 {
			out = append(out, alpha[v>>6&63])
		}
		if n > 2 {
			out = append(out, alpha[v&63])
		}
	}
	return string(out)
}

func init() {
	regVerif("verifCmpU64", func(fr *frame, a []value) value {
		tc := fr.in.tc
		x, y := a[0].(*Term), a[1].(*Term)
		return tc.Ite(tc.bin(opBvULt, x, y), tc.Const(64, ^uint64(0)), tc.Ite(tc.Eq(x, y), tc.Const(64, 0), tc.Const(64, 1)))
	})
	regVerif("verifIteB", func(fr *frame, a []value) value {
		return fr.in.tc.Ite(a[0].(*Term), a[1].(*Term), a[2].(*Term))
	})
}

func init() {
	// verifStrSame: concrete true iff the two strings are syntactically identical (same terms)
	regVerif("verifStrSame", func(fr *frame, a []value) value {
		x, y := a[0].(Str), a[1].(Str)
		if len(x.b) != len(y.b) {
			return fr.in.tc.tFalse
		}
		for i := range x.b {
			if x.b[i] != y.b[i] {
				if x.b[i].isConst() && y.b[i].isConst() && x.b[i].cv() == y.b[i].cv() {
					continue
				}
				return fr.in.tc.tFalse
			}
		}
		return fr.in.tc.tTrue
	})
}

func init() {
	// verifNondetKey / verifNondetVal: arbitrary 64-bit values drawn from a KW-bit range
	// (zero-extended). Keys and values are only compared, (un)marshalled and hashed, never
	// computed with, so behaviour is invariant under order-isomorphic renaming and a range of
	// 2^KW values loses nothing while it exceeds the number of keys in play; it spares the
	// solver 64-bit ordering reasoning at the bit level.
	narrow := func(fr *frame, a []value) value {
		in := fr.in
		kw := int(in.cfg.Bounds["KW"])
		if kw <= 0 || kw >= 64 {
			return in.nondet(strArg(a[0]), 64)
		}
		t := in.nondet(strArg(a[0]), kw)
		return in.tc.Zext(t, 64)
	}
	regVerif("verifNondetKey", narrow)
	regVerif("verifNondetVal", narrow)
}

func init() {
	// verifErrHas(err, s): does the error chain built by fmt.Errorf carry the format prefix s?
	// (messages are opaque in the engine; the format strings and %w chain are kept)
	regVerif("verifErrHas", func(fr *frame, a []value) value {
		in := fr.in
		want := strArg(a[1])
		e := a[0].(iface)
		for depth := 0; e.t != nil && depth < 20; depth++ {
			p, ok := e.v.(*value)
			if !ok || p == nil {
				break
			}
			s, ok := (*p).(structure)
			if !ok || len(s) == 0 {
				break
			}
			if m, ok := s[0].(Str); ok {
				if c, ok := m.concrete(); ok && strings.Contains(c, want) {
					return in.tc.tTrue
				}
			}
			if len(s) < 2 {
				break
			}
			next, ok := s[1].(iface)
			if !ok {
				break
			}
			e = next
		}
		return in.tc.tFalse
	})
}

func init() {
	regVerif("verifNative", func(fr *frame, a []value) value { return fr.in.tc.tFalse })
}

func init() {
	regVerif("verifBoundOr", func(fr *frame, a []value) value {
		in := fr.in
		if v, ok := in.cfg.Bounds[strArg(a[0])]; ok {
			return in.tc.Const(64, uint64(v))
		}
		return a[1]
	})
}
