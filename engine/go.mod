module verif/engine

go 1.23

require golang.org/x/tools v0.29.0

require (
	golang.org/x/mod v0.22.0 // indirect
	golang.org/x/sync v0.10.0 // indirect
)

require github.com/minio/blake2b-simd v0.0.0-20160723061019-3f5f724cb5b1
