package main

// Terms: hash-consed SMT terms over Bool and bit-vectors of width <= 64.
// A TermCtx lives for one symbolic path (paths are re-executed from the
// start, so nothing is shared between paths).

import (
	"fmt"
	"strconv"
	"strings"
)

type Op uint8

const (
	opConst Op = iota
	opVar
	opHashByte // leaf: byte idx (c) of the name produced by hash call hc
	opNot
	opAnd
	opOr
	opEq
	opIte
	opBvNot
	opBvNeg
	opBvAdd
	opBvSub
	opBvMul
	opBvUDiv
	opBvURem
	opBvSDiv
	opBvSRem
	opBvAnd
	opBvOr
	opBvXor
	opBvShl
	opBvLShr
	opBvAShr
	opBvULt
	opBvULe
	opBvSLt
	opBvSLe
	opZext    // c = new width
	opSext    // c = new width
	opExtract // c = lo bit; width w
	opConcat  // args hi, lo
)

var opNames = map[Op]string{
	opNot: "not", opAnd: "and", opOr: "or", opEq: "=", opIte: "ite",
	opBvNot: "bvnot", opBvNeg: "bvneg", opBvAdd: "bvadd", opBvSub: "bvsub", opBvMul: "bvmul",
	opBvUDiv: "bvudiv", opBvURem: "bvurem", opBvSDiv: "bvsdiv", opBvSRem: "bvsrem",
	opBvAnd: "bvand", opBvOr: "bvor", opBvXor: "bvxor", opBvShl: "bvshl", opBvLShr: "bvlshr", opBvAShr: "bvashr",
	opBvULt: "bvult", opBvULe: "bvule", opBvSLt: "bvslt", opBvSLe: "bvsle", opConcat: "concat",
}

type Term struct {
	op   Op
	w    int // 0 = Bool
	args []*Term
	c    uint64
	name string
	hc   *hashCall
	id   int
}

type hashCall struct {
	id   int
	kind string  // "blake2b256" | "b64:<enc>"
	in   []*Term // input bytes (blake2b) ; nil for b64
	src  *hashCall
	conc []byte // concrete output when the input was fully concrete
	n    int    // output length
}

type TermCtx struct {
	tab    map[termKey]*Term
	consts map[[2]uint64]*Term
	nextID int
	vars   []*Term
	hashes []*hashCall
	heqMem map[[2]int]*Term
	tTrue  *Term
	tFalse *Term
}

func newTermCtx() *TermCtx {
	c := &TermCtx{tab: map[termKey]*Term{}, heqMem: map[[2]int]*Term{}, consts: map[[2]uint64]*Term{}}
	c.tTrue = c.mk(&Term{op: opConst, w: 0, c: 1})
	c.tFalse = c.mk(&Term{op: opConst, w: 0, c: 0})
	return c
}

func mask(w int) uint64 {
	if w >= 64 {
		return ^uint64(0)
	}
	return (uint64(1) << uint(w)) - 1
}

type termKey struct {
	op         Op
	w          int
	c          uint64
	name       string
	hc         int
	a0, a1, a2 int
	rest       string
}

func (c *TermCtx) mk(t *Term) *Term {
	k := termKey{op: t.op, w: t.w, c: t.c, name: t.name}
	if t.hc != nil {
		k.hc = t.hc.id
	}
	switch len(t.args) {
	case 0:
	case 1:
		k.a0 = t.args[0].id
	case 2:
		k.a0, k.a1 = t.args[0].id, t.args[1].id
	case 3:
		k.a0, k.a1, k.a2 = t.args[0].id, t.args[1].id, t.args[2].id
	default:
		k.a0, k.a1, k.a2 = t.args[0].id, t.args[1].id, t.args[2].id
		b := make([]byte, 0, 8*len(t.args))
		for _, a := range t.args[3:] {
			b = strconv.AppendInt(b, int64(a.id), 36)
			b = append(b, ',')
		}
		k.rest = string(b)
	}
	if e, ok := c.tab[k]; ok {
		return e
	}
	c.nextID++
	t.id = c.nextID
	c.tab[k] = t
	return t
}

func (c *TermCtx) Bool(b bool) *Term {
	if b {
		return c.tTrue
	}
	return c.tFalse
}

func (c *TermCtx) Const(w int, v uint64) *Term {
	if w == 0 {
		return c.Bool(v != 0)
	}
	v &= mask(w)
	ck := [2]uint64{uint64(w), v}
	if t, ok := c.consts[ck]; ok {
		return t
	}
	t := c.mk(&Term{op: opConst, w: w, c: v})
	c.consts[ck] = t
	return t
}

func (c *TermCtx) Var(name string, w int) *Term {
	t := c.mk(&Term{op: opVar, w: w, name: name})
	if t.id == c.nextID && (len(c.vars) == 0 || c.vars[len(c.vars)-1] != t) {
		c.vars = append(c.vars, t)
	}
	return t
}

func (t *Term) isConst() bool { return t.op == opConst || (t.op == opHashByte && t.hc.conc != nil) }
func (t *Term) cv() uint64 {
	if t.op == opHashByte {
		return uint64(t.hc.conc[t.c])
	}
	return t.c
}
func (t *Term) isTrue() bool  { return t.op == opConst && t.w == 0 && t.c == 1 }
func (t *Term) isFalse() bool { return t.op == opConst && t.w == 0 && t.c == 0 }

func sext64(v uint64, w int) int64 {
	if w >= 64 {
		return int64(v)
	}
	sh := uint(64 - w)
	return int64(v<<sh) >> sh
}

func (c *TermCtx) Not(a *Term) *Term {
	if a.isConst() {
		return c.Bool(a.c == 0)
	}
	if a.op == opNot {
		return a.args[0]
	}
	return c.mk(&Term{op: opNot, args: []*Term{a}})
}

func (c *TermCtx) And(xs ...*Term) *Term {
	var out []*Term
	seen := map[int]bool{}
	for _, x := range xs {
		if x.isFalse() {
			return c.tFalse
		}
		if x.isTrue() {
			continue
		}
		if x.op == opAnd {
			for _, y := range x.args {
				if !seen[y.id] {
					seen[y.id] = true
					out = append(out, y)
				}
			}
			continue
		}
		if !seen[x.id] {
			seen[x.id] = true
			out = append(out, x)
		}
	}
	for _, x := range out {
		if x.op == opNot && seen[x.args[0].id] {
			return c.tFalse
		}
	}
	if len(out) == 0 {
		return c.tTrue
	}
	if len(out) == 1 {
		return out[0]
	}
	return c.mk(&Term{op: opAnd, args: out})
}

func (c *TermCtx) Or(xs ...*Term) *Term {
	var out []*Term
	seen := map[int]bool{}
	for _, x := range xs {
		if x.isTrue() {
			return c.tTrue
		}
		if x.isFalse() {
			continue
		}
		if x.op == opOr {
			for _, y := range x.args {
				if !seen[y.id] {
					seen[y.id] = true
					out = append(out, y)
				}
			}
			continue
		}
		if !seen[x.id] {
			seen[x.id] = true
			out = append(out, x)
		}
	}
	for _, x := range out {
		if x.op == opNot && seen[x.args[0].id] {
			return c.tTrue
		}
	}
	if len(out) == 0 {
		return c.tFalse
	}
	if len(out) == 1 {
		return out[0]
	}
	return c.mk(&Term{op: opOr, args: out})
}

func (c *TermCtx) Implies(a, b *Term) *Term { return c.Or(c.Not(a), b) }
func (c *TermCtx) Iff(a, b *Term) *Term     { return c.Eq(a, b) }

// hashEq: the two hash calls produce the same name iff (same kind and)
// their inputs are equal -- functional and injective model.
func (c *TermCtx) hashEq(a, b *hashCall) *Term {
	if a == b {
		return c.tTrue
	}
	if a.kind != b.kind {
		return nil
	}
	k := [2]int{a.id, b.id}
	if a.id > b.id {
		k = [2]int{b.id, a.id}
	}
	if r, ok := c.heqMem[k]; ok {
		return r
	}
	var r *Term
	if a.src != nil || b.src != nil {
		if a.src == nil || b.src == nil {
			return nil
		}
		r = c.hashEq(a.src, b.src)
	} else if len(a.in) != len(b.in) {
		r = c.tFalse
	} else {
		parts := make([]*Term, 0, len(a.in))
		for i := range a.in {
			e := c.Eq(a.in[i], b.in[i])
			if e.isFalse() {
				parts = nil
				r = c.tFalse
				break
			}
			parts = append(parts, e)
		}
		if r == nil {
			r = c.And(parts...)
		}
	}
	c.heqMem[k] = r
	return r
}

func (c *TermCtx) Eq(a, b *Term) *Term {
	if a == b {
		return c.tTrue
	}
	if a.w != b.w {
		panic(fmt.Sprintf("Eq width mismatch %d vs %d: %s %s", a.w, b.w, a, b))
	}
	if a.op == opHashByte && b.op == opHashByte && a.c == b.c {
		if r := c.hashEq(a.hc, b.hc); r != nil {
			return r
		}
	}
	if a.isConst() && b.isConst() {
		return c.Bool(a.cv() == b.cv())
	}
	if a.op == opZext && b.op == opZext && a.args[0].w == b.args[0].w {
		return c.Eq(a.args[0], b.args[0])
	}
	if a.op == opZext && b.isConst() {
		a, b = b, a
	}
	if b.op == opZext && a.isConst() {
		in := b.args[0]
		if a.cv() > mask(in.w) {
			return c.tFalse
		}
		return c.Eq(in, c.Const(in.w, a.cv()))
	}
	if a.w == 0 {
		if a.isConst() {
			a, b = b, a
		}
		if b.isTrue() {
			return a
		}
		if b.isFalse() {
			return c.Not(a)
		}
	}
	// eq of ite with constants: (ite c k1 k2) == k  -> c / not c / false
	if b.op == opIte && a.isConst() {
		a, b = b, a
	}
	if a.op == opIte && b.isConst() {
		t, e := a.args[1], a.args[2]
		if t.isConst() && e.isConst() {
			te, ee := t.cv() == b.cv(), e.cv() == b.cv()
			switch {
			case te && ee:
				return c.tTrue
			case te:
				return a.args[0]
			case ee:
				return c.Not(a.args[0])
			default:
				return c.tFalse
			}
		}
		if t.isConst() || e.isConst() {
			return c.Ite(a.args[0], c.Eq(t, b), c.Eq(e, b))
		}
	}
	// extract-byte equalities of the same shape are left to the solver
	if a.id > b.id {
		a, b = b, a
	}
	return c.mk(&Term{op: opEq, args: []*Term{a, b}})
}

func (c *TermCtx) Ite(cond, a, b *Term) *Term {
	if cond.isTrue() {
		return a
	}
	if cond.isFalse() {
		return b
	}
	if a == b {
		return a
	}
	if a.w == 0 {
		if a.isTrue() && b.isFalse() {
			return cond
		}
		if a.isFalse() && b.isTrue() {
			return c.Not(cond)
		}
		if a.isTrue() {
			return c.Or(cond, b)
		}
		if a.isFalse() {
			return c.And(c.Not(cond), b)
		}
		if b.isTrue() {
			return c.Or(c.Not(cond), a)
		}
		if b.isFalse() {
			return c.And(cond, a)
		}
	}
	return c.mk(&Term{op: opIte, w: a.w, args: []*Term{cond, a, b}})
}

func (c *TermCtx) un(op Op, a *Term) *Term {
	if a.isConst() {
		switch op {
		case opBvNot:
			return c.Const(a.w, ^a.cv())
		case opBvNeg:
			return c.Const(a.w, -a.cv())
		}
	}
	return c.mk(&Term{op: op, w: a.w, args: []*Term{a}})
}

func (c *TermCtx) bin(op Op, a, b *Term) *Term {
	if a.w != b.w {
		panic(fmt.Sprintf("bin %s width mismatch %d vs %d", opNames[op], a.w, b.w))
	}
	w := a.w
	if a.isConst() && b.isConst() {
		x, y := a.cv(), b.cv()
		switch op {
		case opBvAdd:
			return c.Const(w, x+y)
		case opBvSub:
			return c.Const(w, x-y)
		case opBvMul:
			return c.Const(w, x*y)
		case opBvUDiv:
			if y == 0 {
				return c.Const(w, mask(w))
			}
			return c.Const(w, x/y)
		case opBvURem:
			if y == 0 {
				return c.Const(w, x)
			}
			return c.Const(w, x%y)
		case opBvSDiv:
			if y == 0 {
				break
			}
			sx, sy := sext64(x, w), sext64(y, w)
			if sy == -1 {
				return c.Const(w, uint64(-sx))
			}
			return c.Const(w, uint64(sx/sy))
		case opBvSRem:
			if y == 0 {
				break
			}
			sx, sy := sext64(x, w), sext64(y, w)
			if sy == -1 {
				return c.Const(w, 0)
			}
			return c.Const(w, uint64(sx%sy))
		case opBvAnd:
			return c.Const(w, x&y)
		case opBvOr:
			return c.Const(w, x|y)
		case opBvXor:
			return c.Const(w, x^y)
		case opBvShl:
			if y >= uint64(w) {
				return c.Const(w, 0)
			}
			return c.Const(w, x<<y)
		case opBvLShr:
			if y >= uint64(w) {
				return c.Const(w, 0)
			}
			return c.Const(w, x>>y)
		case opBvAShr:
			sx := sext64(x, w)
			if y >= uint64(w) {
				y = uint64(w - 1)
			}
			return c.Const(w, uint64(sx>>y))
		case opBvULt:
			return c.Bool(x < y)
		case opBvULe:
			return c.Bool(x <= y)
		case opBvSLt:
			return c.Bool(sext64(x, w) < sext64(y, w))
		case opBvSLe:
			return c.Bool(sext64(x, w) <= sext64(y, w))
		}
	}
	rw := w
	switch op {
	case opBvULt, opBvULe, opBvSLt, opBvSLe:
		rw = 0
		if a == b {
			return c.Bool(op == opBvULe || op == opBvSLe)
		}
		// comparisons of zero-extended operands happen at the narrow width (unsigned; a
		// zero-extended value is non-negative, so signed comparison agrees when it gains a bit)
		if a.op == opZext && b.op == opZext && a.args[0].w == b.args[0].w && a.args[0].w < w {
			uop := op
			if op == opBvSLt {
				uop = opBvULt
			} else if op == opBvSLe {
				uop = opBvULe
			}
			return c.bin(uop, a.args[0], b.args[0])
		}
	case opBvAdd, opBvOr, opBvXor:
		if a.isConst() && a.cv() == 0 {
			return b
		}
		if b.isConst() && b.cv() == 0 {
			return a
		}
	case opBvSub, opBvShl, opBvLShr:
		if b.isConst() && b.cv() == 0 {
			return a
		}
	case opBvAnd:
		if a.isConst() && a.cv() == 0 || b.isConst() && b.cv() == 0 {
			return c.Const(w, 0)
		}
		if a.isConst() && a.cv() == mask(w) {
			return b
		}
		if b.isConst() && b.cv() == mask(w) {
			return a
		}
	}
	// comparisons of an ite-of-constants against a constant (the shape of
	// `cmp <= 0` where cmp = Order(a,b) summarised as ite) fold to the guard.
	if rw == 0 && (a.op == opIte && b.isConst() || b.op == opIte && a.isConst()) {
		if a.op == opIte {
			return c.Ite(a.args[0], c.bin(op, a.args[1], b), c.bin(op, a.args[2], b))
		}
		return c.Ite(b.args[0], c.bin(op, a, b.args[1]), c.bin(op, a, b.args[2]))
	}
	return c.mk(&Term{op: op, w: rw, args: []*Term{a, b}})
}

func (c *TermCtx) Zext(a *Term, w int) *Term {
	if w == a.w {
		return a
	}
	if a.isConst() {
		return c.Const(w, a.cv())
	}
	return c.mk(&Term{op: opZext, w: w, args: []*Term{a}})
}

func (c *TermCtx) Sext(a *Term, w int) *Term {
	if w == a.w {
		return a
	}
	if a.isConst() {
		return c.Const(w, uint64(sext64(a.cv(), a.w)))
	}
	return c.mk(&Term{op: opSext, w: w, args: []*Term{a}})
}

// Extract bits [lo, lo+w) of a.
func (c *TermCtx) Extract(a *Term, lo, w int) *Term {
	if lo == 0 && w == a.w {
		return a
	}
	if a.isConst() {
		return c.Const(w, a.cv()>>uint(lo))
	}
	if a.op == opConcat {
		hi, l := a.args[0], a.args[1]
		if lo+w <= l.w {
			return c.Extract(l, lo, w)
		}
		if lo >= l.w {
			return c.Extract(hi, lo-l.w, w)
		}
	}
	if a.op == opZext {
		in := a.args[0]
		if lo+w <= in.w {
			return c.Extract(in, lo, w)
		}
		if lo >= in.w {
			return c.Const(w, 0)
		}
	}
	if a.op == opExtract {
		return c.Extract(a.args[0], int(a.c)+lo, w)
	}
	return c.mk(&Term{op: opExtract, w: w, c: uint64(lo), args: []*Term{a}})
}

func (c *TermCtx) Concat(hi, lo *Term) *Term {
	if hi.isConst() && lo.isConst() {
		return c.Const(hi.w+lo.w, hi.cv()<<uint(lo.w)|lo.cv())
	}
	if hi.isConst() && hi.cv() == 0 {
		if lo.op == opZext {
			return c.Zext(lo.args[0], hi.w+lo.w)
		}
		return c.Zext(lo, hi.w+lo.w)
	}
	// concat(extract(x, k+n, m), extract(x, k, n)) = extract(x, k, n+m)
	if hi.op == opExtract && lo.op == opExtract && hi.args[0] == lo.args[0] && int(hi.c) == int(lo.c)+lo.w {
		return c.Extract(hi.args[0], int(lo.c), hi.w+lo.w)
	}
	if lo.op == opExtract && int(lo.c) == 0 && hi.op == opExtract && hi.args[0] == lo.args[0] && int(hi.c) == lo.w {
		return c.Extract(lo.args[0], 0, hi.w+lo.w)
	}
	return c.mk(&Term{op: opConcat, w: hi.w + lo.w, args: []*Term{hi, lo}})
}

// ---- printing ----

func sortName(w int) string {
	if w == 0 {
		return "Bool"
	}
	return fmt.Sprintf("(_ BitVec %d)", w)
}

func constLit(w int, v uint64) string {
	if w == 0 {
		if v != 0 {
			return "true"
		}
		return "false"
	}
	if w%4 == 0 {
		return fmt.Sprintf("#x%0*x", w/4, v&mask(w))
	}
	return fmt.Sprintf("#b%0*b", w, v&mask(w))
}

func (t *Term) leafName() string {
	switch t.op {
	case opConst:
		return constLit(t.w, t.c)
	case opVar:
		return t.name
	case opHashByte:
		if t.hc.conc != nil {
			return constLit(8, uint64(t.hc.conc[t.c]))
		}
		return fmt.Sprintf("h%d_%d", t.hc.id, t.c)
	}
	return fmt.Sprintf("t%d", t.id)
}

func (t *Term) isLeaf() bool { return t.op == opConst || t.op == opVar || t.op == opHashByte }

// body renders the node with references to children by name.
func (t *Term) body() string {
	var sb strings.Builder
	switch t.op {
	case opZext:
		fmt.Fprintf(&sb, "((_ zero_extend %d) %s)", t.w-t.args[0].w, t.args[0].leafName())
	case opSext:
		fmt.Fprintf(&sb, "((_ sign_extend %d) %s)", t.w-t.args[0].w, t.args[0].leafName())
	case opExtract:
		fmt.Fprintf(&sb, "((_ extract %d %d) %s)", int(t.c)+t.w-1, t.c, t.args[0].leafName())
	default:
		sb.WriteString("(")
		sb.WriteString(opNames[t.op])
		for _, a := range t.args {
			sb.WriteString(" ")
			sb.WriteString(a.leafName())
		}
		sb.WriteString(")")
	}
	return sb.String()
}

// String renders a fully expanded term (debugging / samples only).
func (t *Term) String() string {
	if t.isLeaf() {
		return t.leafName()
	}
	var sb strings.Builder
	switch t.op {
	case opZext:
		fmt.Fprintf(&sb, "((_ zero_extend %d) %s)", t.w-t.args[0].w, t.args[0])
	case opSext:
		fmt.Fprintf(&sb, "((_ sign_extend %d) %s)", t.w-t.args[0].w, t.args[0])
	case opExtract:
		fmt.Fprintf(&sb, "((_ extract %d %d) %s)", int(t.c)+t.w-1, t.c, t.args[0])
	default:
		sb.WriteString("(")
		sb.WriteString(opNames[t.op])
		for _, a := range t.args {
			sb.WriteString(" ")
			sb.WriteString(a.String())
		}
		sb.WriteString(")")
	}
	return sb.String()
}

// ---- evaluation under a model ----

type Model map[string]uint64

func (m Model) eval(t *Term, memo map[int]uint64) uint64 {
	if t.op == opConst {
		return t.c
	}
	if v, ok := memo[t.id]; ok {
		return v
	}
	var r uint64
	a := func(i int) uint64 { return m.eval(t.args[i], memo) }
	switch t.op {
	case opVar:
		r = m[t.name] & mask(t.w)
		if t.w == 0 && r != 0 {
			r = 1
		}
	case opHashByte:
		if t.hc.conc != nil {
			r = uint64(t.hc.conc[t.c])
		} else {
			r = m[t.leafName()] & 0xff
		}
	case opNot:
		r = 1 - a(0)
	case opAnd:
		r = 1
		for i := range t.args {
			if a(i) == 0 {
				r = 0
				break
			}
		}
	case opOr:
		r = 0
		for i := range t.args {
			if a(i) != 0 {
				r = 1
				break
			}
		}
	case opEq:
		if a(0) == a(1) {
			r = 1
		}
	case opIte:
		if a(0) != 0 {
			r = a(1)
		} else {
			r = a(2)
		}
	case opZext:
		r = a(0)
	case opSext:
		r = uint64(sext64(a(0), t.args[0].w)) & mask(t.w)
	case opExtract:
		r = (a(0) >> uint(t.c)) & mask(t.w)
	case opConcat:
		r = (a(0)<<uint(t.args[1].w) | a(1)) & mask(t.w)
	case opBvNot:
		r = ^a(0) & mask(t.w)
	case opBvNeg:
		r = -a(0) & mask(t.w)
	default:
		x, y := a(0), a(1)
		w := t.args[0].w
		switch t.op {
		case opBvAdd:
			r = (x + y) & mask(w)
		case opBvSub:
			r = (x - y) & mask(w)
		case opBvMul:
			r = (x * y) & mask(w)
		case opBvUDiv:
			if y == 0 {
				r = mask(w)
			} else {
				r = x / y
			}
		case opBvURem:
			if y == 0 {
				r = x
			} else {
				r = x % y
			}
		case opBvSDiv:
			sx, sy := sext64(x, w), sext64(y, w)
			if sy == 0 {
				if sx < 0 {
					r = 1
				} else {
					r = mask(w)
				}
			} else if sy == -1 {
				r = uint64(-sx) & mask(w)
			} else {
				r = uint64(sx/sy) & mask(w)
			}
		case opBvSRem:
			sx, sy := sext64(x, w), sext64(y, w)
			if sy == 0 {
				r = x
			} else if sy == -1 {
				r = 0
			} else {
				r = uint64(sx%sy) & mask(w)
			}
		case opBvAnd:
			r = x & y
		case opBvOr:
			r = x | y
		case opBvXor:
			r = x ^ y
		case opBvShl:
			if y >= uint64(w) {
				r = 0
			} else {
				r = (x << y) & mask(w)
			}
		case opBvLShr:
			if y >= uint64(w) {
				r = 0
			} else {
				r = x >> y
			}
		case opBvAShr:
			if y >= uint64(w) {
				y = uint64(w - 1)
			}
			r = uint64(sext64(x, w)>>y) & mask(w)
		case opBvULt:
			if x < y {
				r = 1
			}
		case opBvULe:
			if x <= y {
				r = 1
			}
		case opBvSLt:
			if sext64(x, w) < sext64(y, w) {
				r = 1
			}
		case opBvSLe:
			if sext64(x, w) <= sext64(y, w) {
				r = 1
			}
		default:
			panic("eval: unhandled op " + opNames[t.op])
		}
	}
	memo[t.id] = r
	return r
}
