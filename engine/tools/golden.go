//go:build ignore

package main

import (
	"encoding/base64"
	"encoding/hex"
	"fmt"
	"hash/crc64"

	blake2b "github.com/minio/blake2b-simd"
)

func main() {
	tab := crc64.MakeTable(crc64.ECMA)
	for _, s := range []string{"hello", "a", "", "mast"} {
		fmt.Printf("crc64ecma(%q) = %#x\n", s, crc64.Checksum([]byte(s), tab))
	}
	node, _ := hex.DecodeString("02" + "08" + "0000000000000001" + "08" + "0000000000000002" + "02" + "08" + "000000000000000a" + "08" + "0000000000000014" + "00")
	d := blake2b.Sum256(node)
	fmt.Println("node2 name:", base64.RawURLEncoding.EncodeToString(d[:]))
	d = blake2b.Sum256([]byte("abc"))
	fmt.Println("blake2b256(abc):", hex.EncodeToString(d[:]))
}
