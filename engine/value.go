package main

// Value representation (after x/tools/go/ssa/interp, with symbolic scalars).
//
//   bool, integers     *Term            (width 0 / 8..64; signedness comes from the static type)
//   string             Str              (concrete length, each byte a *Term of width 8)
//   pointer            *value           (nil pointer: (*value)(nil))
//   struct             structure
//   array              array
//   slice              []value          (Go slices: aliasing, len and cap are the real thing)
//   interface          iface{t, v}      (nil interface: iface{})
//   map                *mapV
//   chan               *chanV
//   func               *ssa.Function | *closure | *ssa.Builtin
//   tuple              tuple
//   reflect.Type       rtype{t}         reflect.Value rvalue{t, v}

import (
	"fmt"
	"go/types"
	"strings"

	"golang.org/x/tools/go/ssa"
)

type value interface{}

type Str struct{ b []*Term }

type structure []value
type array []value
type tuple []value

type iface struct {
	t types.Type
	v value
}

type closure struct {
	Fn  *ssa.Function
	Env []value
}

type rtype struct{ t types.Type }

type mapV struct {
	keyT types.Type
	keys []value
	vals []value
}

type bad struct{}

func (in *Interp) zero(t types.Type) value {
	switch t := t.(type) {
	case *types.Basic:
		if t.Kind() == types.UntypedNil {
			panic("untyped nil has no zero value")
		}
		if t.Info()&types.IsUnsigned != 0 || t.Info()&types.IsInteger != 0 {
			return in.tc.Const(in.widthOf(t), 0)
		}
		switch t.Kind() {
		case types.Bool, types.UntypedBool:
			return in.tc.tFalse
		case types.String, types.UntypedString:
			return Str{}
		case types.UnsafePointer:
			return (*value)(nil)
		case types.Float32, types.Float64, types.UntypedFloat:
			return float64(0)
		}
		panic(fmt.Sprintf("zero: unsupported basic type %s", t))
	case *types.Pointer:
		return (*value)(nil)
	case *types.Array:
		a := make(array, t.Len())
		for i := range a {
			a[i] = in.zero(t.Elem())
		}
		return a
	case *types.Named:
		if isReflectValue(t) {
			return rvalueA{}
		}
		return in.zero(t.Underlying())
	case *types.Alias:
		return in.zero(types.Unalias(t))
	case *types.Interface:
		return iface{}
	case *types.Slice:
		return []value(nil)
	case *types.Struct:
		s := make(structure, t.NumFields())
		for i := range s {
			s[i] = in.zero(t.Field(i).Type())
		}
		return s
	case *types.Tuple:
		if t.Len() == 1 {
			return in.zero(t.At(0).Type())
		}
		s := make(tuple, t.Len())
		for i := range s {
			s[i] = in.zero(t.At(i).Type())
		}
		return s
	case *types.Chan:
		return (*chanV)(nil)
	case *types.Map:
		return (*mapV)(nil)
	case *types.Signature:
		return (*ssa.Function)(nil)
	}
	panic(fmt.Sprintf("zero: unexpected type %T %s", t, t))
}

func isReflectValue(t *types.Named) bool {
	o := t.Obj()
	return o.Pkg() != nil && o.Pkg().Path() == "reflect" && o.Name() == "Value"
}

func (in *Interp) widthOf(t types.Type) int {
	b, ok := t.Underlying().(*types.Basic)
	if !ok {
		panic(fmt.Sprintf("widthOf non-basic %s", t))
	}
	switch b.Kind() {
	case types.Bool, types.UntypedBool:
		return 0
	case types.Int8, types.Uint8:
		return 8
	case types.Int16, types.Uint16:
		return 16
	case types.Int32, types.Uint32, types.UntypedRune:
		return 32
	case types.Int, types.Uint, types.Int64, types.Uint64, types.Uintptr, types.UntypedInt:
		return 64
	}
	panic(fmt.Sprintf("widthOf: unsupported %s", t))
}

func isSigned(t types.Type) bool {
	b, ok := t.Underlying().(*types.Basic)
	if !ok {
		return false
	}
	return b.Info()&types.IsInteger != 0 && b.Info()&types.IsUnsigned == 0
}

// copyVal returns a copy of v sufficient for assignment semantics
// (structs and arrays are values; everything else is a reference or immutable).
func copyVal(v value) value {
	switch v := v.(type) {
	case structure:
		a := make(structure, len(v))
		for i := range v {
			a[i] = copyVal(v[i])
		}
		return a
	case array:
		a := make(array, len(v))
		for i := range v {
			a[i] = copyVal(v[i])
		}
		return a
	case tuple:
		return v
	}
	return v
}

func (in *Interp) conc(v value) (uint64, bool) {
	t, ok := v.(*Term)
	if !ok {
		panic(fmt.Sprintf("conc: not a scalar: %T", v))
	}
	if t.isConst() {
		return t.cv(), true
	}
	return 0, false
}

func (in *Interp) strConst(s string) Str {
	b := make([]*Term, len(s))
	for i := 0; i < len(s); i++ {
		b[i] = in.tc.Const(8, uint64(s[i]))
	}
	return Str{b}
}

func (s Str) concrete() (string, bool) {
	var sb strings.Builder
	for _, t := range s.b {
		if !t.isConst() {
			return "", false
		}
		sb.WriteByte(byte(t.cv()))
	}
	return sb.String(), true
}

// show renders a string for messages; symbolic bytes shown as '?'.
func (s Str) show() string {
	var sb strings.Builder
	for _, t := range s.b {
		if t.isConst() {
			sb.WriteByte(byte(t.cv()))
		} else if t.op == opHashByte {
			if t.c == 0 {
				fmt.Fprintf(&sb, "<name#%d>", t.hc.id)
			}
		} else {
			sb.WriteByte('?')
		}
	}
	return sb.String()
}

func (in *Interp) strEq(a, b Str) *Term {
	if len(a.b) != len(b.b) {
		return in.tc.tFalse
	}
	parts := make([]*Term, 0, len(a.b))
	for i := range a.b {
		e := in.tc.Eq(a.b[i], b.b[i])
		if e.isFalse() {
			return e
		}
		parts = append(parts, e)
	}
	return in.tc.And(parts...)
}

// bytesCmpTerm: lexicographic three-way comparison as a term of width 64 (-1,0,1).
func (in *Interp) bytesCmp(a, b []*Term) *Term {
	tc := in.tc
	n := len(a)
	if len(b) < n {
		n = len(b)
	}
	var tail *Term
	switch {
	case len(a) < len(b):
		tail = tc.Const(64, ^uint64(0))
	case len(a) > len(b):
		tail = tc.Const(64, 1)
	default:
		tail = tc.Const(64, 0)
	}
	r := tail
	for i := n - 1; i >= 0; i-- {
		lt := tc.bin(opBvULt, a[i], b[i])
		eq := tc.Eq(a[i], b[i])
		r = tc.Ite(eq, r, tc.Ite(lt, tc.Const(64, ^uint64(0)), tc.Const(64, 1)))
	}
	return r
}

// equals implements == on two values of the same static type t.
// It panics with a targetPanic for uncomparable dynamic types, as Go does.
func (in *Interp) equals(t types.Type, x, y value) *Term {
	tc := in.tc
	switch x := x.(type) {
	case *Term:
		return tc.Eq(x, y.(*Term))
	case Str:
		return in.strEq(x, y.(Str))
	case float64:
		return tc.Bool(x == y.(float64))
	case *value:
		return tc.Bool(x == y.(*value))
	case *mapV:
		return tc.Bool(x == y.(*mapV))
	case *chanV:
		return tc.Bool(x == y.(*chanV))
	case rtype:
		yt, ok := y.(rtype)
		return tc.Bool(ok && types.Identical(x.t, yt.t))
	case iface:
		yi := y.(iface)
		if x.t == nil || yi.t == nil {
			return tc.Bool(x.t == nil && yi.t == nil)
		}
		if !types.Identical(x.t, yi.t) {
			return tc.tFalse
		}
		if !types.Comparable(x.t) {
			in.targetPanicStr("runtime error: comparing uncomparable type " + x.t.String())
		}
		return in.equals(x.t, x.v, yi.v)
	case structure:
		ys := y.(structure)
		st := t.Underlying().(*types.Struct)
		parts := []*Term{}
		for i := range x {
			if st.Field(i).Name() == "_" {
				continue
			}
			parts = append(parts, in.equals(st.Field(i).Type(), x[i], ys[i]))
		}
		return tc.And(parts...)
	case array:
		ya := y.(array)
		et := t.Underlying().(*types.Array).Elem()
		parts := []*Term{}
		for i := range x {
			parts = append(parts, in.equals(et, x[i], ya[i]))
		}
		return tc.And(parts...)
	case *ssa.Function, *closure, *ssa.Builtin:
		// only comparison with nil is legal and that is compiled to a nil check
		return tc.Bool(isNilFunc(x) && isNilFunc(y))
	case []value:
		// slice == nil is the only legal form
		ys, _ := y.([]value)
		return tc.Bool(x == nil && ys == nil)
	case nil:
		return tc.Bool(y == nil)
	}
	panic(fmt.Sprintf("equals: unhandled %T", x))
}

func isNilFunc(v value) bool {
	switch f := v.(type) {
	case *ssa.Function:
		return f == nil
	case *closure:
		return f == nil
	case *ssa.Builtin:
		return f == nil
	case nil:
		return true
	}
	return false
}

// deepEqual models reflect.DeepEqual over engine values of dynamic/static type t.
func (in *Interp) deepEqual(t types.Type, x, y value, depth int) *Term {
	tc := in.tc
	if depth > 20 {
		panic(engineError{"deepEqual: too deep"})
	}
	switch x := x.(type) {
	case *Term, Str, float64, rtype:
		return in.equals(t, x, y)
	case iface:
		yi := y.(iface)
		if x.t == nil || yi.t == nil {
			return tc.Bool(x.t == nil && yi.t == nil)
		}
		if !types.Identical(x.t, yi.t) {
			return tc.tFalse
		}
		return in.deepEqual(x.t, x.v, yi.v, depth+1)
	case *value:
		yp := y.(*value)
		if x == yp {
			return tc.tTrue
		}
		if x == nil || yp == nil {
			return tc.tFalse
		}
		pt, ok := t.Underlying().(*types.Pointer)
		if !ok {
			return tc.tFalse
		}
		return in.deepEqual(pt.Elem(), *x, *yp, depth+1)
	case structure:
		ys := y.(structure)
		st := t.Underlying().(*types.Struct)
		parts := []*Term{}
		for i := range x {
			parts = append(parts, in.deepEqual(st.Field(i).Type(), x[i], ys[i], depth+1))
		}
		return tc.And(parts...)
	case array:
		ya := y.(array)
		et := t.Underlying().(*types.Array).Elem()
		parts := []*Term{}
		for i := range x {
			parts = append(parts, in.deepEqual(et, x[i], ya[i], depth+1))
		}
		return tc.And(parts...)
	case []value:
		ys := y.([]value)
		if (x == nil) != (ys == nil) || len(x) != len(ys) {
			return tc.tFalse
		}
		et := t.Underlying().(*types.Slice).Elem()
		parts := []*Term{}
		for i := range x {
			parts = append(parts, in.deepEqual(et, x[i], ys[i], depth+1))
		}
		return tc.And(parts...)
	case *mapV:
		ym := y.(*mapV)
		if x == ym {
			return tc.tTrue
		}
		panic(engineError{"deepEqual on distinct maps not modelled"})
	case *ssa.Function, *closure, *ssa.Builtin:
		return tc.Bool(isNilFunc(x) && isNilFunc(y))
	case *chanV:
		return tc.Bool(x == y.(*chanV))
	case nil:
		return tc.Bool(y == nil)
	}
	panic(fmt.Sprintf("deepEqual: unhandled %T", x))
}
