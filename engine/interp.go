package main

import (
	"fmt"
	"go/token"
	"go/types"
	"os"
	"slices"
	"strings"
	"sync"

	"golang.org/x/tools/go/ssa"
)

// ---- static, shared between workers ----

type fnInfo struct {
	idx map[ssa.Value]int
	n   int
}

type Engine struct {
	prog     *ssa.Program
	pkgs     map[string]*ssa.Package // by import path
	fnInfos  sync.Map                // *ssa.Function -> *fnInfo
	initOK   map[string]bool         // packages whose init is executed
	sizes    types.Sizes
	fnUsed   sync.Map // *ssa.Function -> true (functions actually executed)
	stubUsed sync.Map // name -> true
}

func (e *Engine) info(fn *ssa.Function) *fnInfo {
	if v, ok := e.fnInfos.Load(fn); ok {
		return v.(*fnInfo)
	}
	fi := &fnInfo{idx: map[ssa.Value]int{}}
	add := func(v ssa.Value) {
		fi.idx[v] = fi.n
		fi.n++
	}
	for _, p := range fn.Params {
		add(p)
	}
	for _, fv := range fn.FreeVars {
		add(fv)
	}
	for _, b := range fn.Blocks {
		for _, ins := range b.Instrs {
			if v, ok := ins.(ssa.Value); ok {
				add(v)
			}
		}
	}
	v, _ := e.fnInfos.LoadOrStore(fn, fi)
	return v.(*fnInfo)
}

// ---- per-path interpreter ----

type targetPanic struct{ v value }
type pathAbort struct{ reason string }

type deferred struct {
	fn    value
	args  []value
	instr *ssa.Defer
	tail  *deferred
}

type frame struct {
	in               *Interp
	g                *goroutine
	caller           *frame
	fn               *ssa.Function
	fi               *fnInfo
	block, prevBlock *ssa.BasicBlock
	env              []value
	locals           []value
	defers           *deferred
	result           value
	panicking        bool
	panic            interface{}
	phitemps         []value
	callPos          token.Pos
}

func (fr *frame) get(key ssa.Value) value {
	switch key := key.(type) {
	case nil:
		return nil
	case *ssa.Function, *ssa.Builtin:
		return key
	case *ssa.Const:
		return fr.in.constValue(key)
	case *ssa.Global:
		return fr.in.globalAddr(key)
	}
	if i, ok := fr.fi.idx[key]; ok {
		v := fr.env[i]
		if v == nil {
			if _, isIface := key.Type().Underlying().(*types.Interface); !isIface {
				// nil slot for a non-interface: value never set
			}
		}
		return v
	}
	panic(fmt.Sprintf("get: no value for %T: %v", key, key.Name()))
}

func (fr *frame) set(key ssa.Value, v value) {
	fr.env[fr.fi.idx[key]] = v
}

func deref(t types.Type) types.Type {
	if p, ok := t.Underlying().(*types.Pointer); ok {
		return p.Elem()
	}
	panic("deref of non-pointer " + t.String())
}

func (in *Interp) constValue(c *ssa.Const) value {
	if v, ok := in.constCache[c]; ok {
		return v
	}
	v := in.constValue1(c)
	switch v.(type) {
	case *Term, Str:
		in.constCache[c] = v
	}
	return v
}

func (in *Interp) constValue1(c *ssa.Const) value {
	if c.Value == nil {
		return in.zero(c.Type())
	}
	if t, ok := c.Type().Underlying().(*types.Basic); ok {
		switch {
		case t.Info()&types.IsBoolean != 0:
			return in.tc.Bool(constantBool(c))
		case t.Info()&types.IsInteger != 0:
			w := in.widthOf(t)
			if t.Info()&types.IsUnsigned != 0 {
				return in.tc.Const(w, c.Uint64())
			}
			return in.tc.Const(w, uint64(c.Int64()))
		case t.Info()&types.IsString != 0:
			return in.strConst(constantString(c))
		case t.Info()&types.IsFloat != 0:
			return c.Float64()
		}
	}
	panic(fmt.Sprintf("constValue: unsupported %s of type %s", c, c.Type()))
}

func (in *Interp) targetPanicStr(msg string) {
	panic(targetPanic{iface{t: in.eng.runtimeErrorT(), v: in.strConst(msg)}})
}

func (e *Engine) runtimeErrorT() types.Type {
	return types.Universe.Lookup("string").Type() // dynamic type tag for engine-raised runtime errors
}

// ---- instruction interpreter ----

var traceFn = os.Getenv("VERIF_TRACE_FN")

type continuation int

const (
	kNext continuation = iota
	kReturn
	kJump
)

func (fr *frame) runDefer(d *deferred) {
	var ok bool
	defer func() {
		if !ok {
			r := recover()
			if _, isAbort := r.(pathAbort); isAbort {
				panic(r)
			}
			if _, isEng := r.(engineError); isEng {
				panic(r)
			}
			fr.panicking = true
			fr.panic = r
		}
	}()
	fr.in.call(fr, d.instr.Pos(), d.fn, d.args)
	ok = true
}

func (fr *frame) runDefers() {
	for d := fr.defers; d != nil; d = d.tail {
		fr.runDefer(d)
	}
	fr.defers = nil
	if fr.panicking {
		panic(fr.panic)
	}
}

func (in *Interp) lookupMethod(typ types.Type, meth *types.Func) *ssa.Function {
	return in.prog.LookupMethod(typ, meth.Pkg(), meth.Name())
}

func (in *Interp) visitInstr(fr *frame, instr ssa.Instruction) continuation {
	in.steps++
	if in.steps > in.cfg.MaxSteps {
		panic(pathAbort{"step-limit"})
	}
	if traceFn != "" && fr.fn.Name() == traceFn {
		defer func() {
			if v, ok := instr.(ssa.Value); ok {
				fmt.Fprintf(os.Stderr, "TRACE %s = %s  => %#v\n", v.Name(), instr.String(), fr.get(v))
			} else {
				fmt.Fprintf(os.Stderr, "TRACE %s\n", instr.String())
			}
		}()
	}
	switch instr := instr.(type) {
	case *ssa.DebugRef:
	case *ssa.UnOp:
		fr.set(instr, in.unop(fr, instr, fr.get(instr.X)))
	case *ssa.BinOp:
		fr.set(instr, in.binop(instr.Op, instr.X.Type(), fr.get(instr.X), fr.get(instr.Y)))
	case *ssa.Call:
		fn, args := in.prepareCall(fr, &instr.Call)
		fr.set(instr, in.call(fr, instr.Pos(), fn, args))
	case *ssa.ChangeInterface:
		fr.set(instr, fr.get(instr.X))
	case *ssa.ChangeType:
		fr.set(instr, fr.get(instr.X))
	case *ssa.Convert:
		fr.set(instr, in.conv(instr.Type(), instr.X.Type(), fr.get(instr.X)))
	case *ssa.SliceToArrayPointer:
		panic(engineError{"SliceToArrayPointer not modelled"})
	case *ssa.MakeInterface:
		fr.set(instr, iface{t: instr.X.Type(), v: fr.get(instr.X)})
	case *ssa.Extract:
		fr.set(instr, fr.get(instr.Tuple).(tuple)[instr.Index])
	case *ssa.Slice:
		fr.set(instr, in.slice(instr, fr.get(instr.X), fr.get(instr.Low), fr.get(instr.High), fr.get(instr.Max)))
	case *ssa.Return:
		switch len(instr.Results) {
		case 0:
		case 1:
			fr.result = fr.get(instr.Results[0])
		default:
			res := make(tuple, len(instr.Results))
			for i, r := range instr.Results {
				res[i] = fr.get(r)
			}
			fr.result = res
		}
		fr.block = nil
		return kReturn
	case *ssa.RunDefers:
		fr.runDefers()
	case *ssa.Panic:
		panic(targetPanic{fr.get(instr.X)})
	case *ssa.Send:
		in.chanSend(fr, fr.get(instr.Chan).(*chanV), fr.get(instr.X))
	case *ssa.Store:
		in.store(fr, fr.get(instr.Addr).(*value), fr.get(instr.Val), instr)
	case *ssa.If:
		succ := 1
		kind := "branch"
		if in.cfg.BranchSites {
			kind = "branch@" + in.prog.Fset.Position(instr.Cond.Pos()).String()
		}
		if in.decideBool(fr.get(instr.Cond).(*Term), kind) {
			succ = 0
		}
		fr.prevBlock, fr.block = fr.block, fr.block.Succs[succ]
		return kJump
	case *ssa.Jump:
		fr.prevBlock, fr.block = fr.block, fr.block.Succs[0]
		return kJump
	case *ssa.Defer:
		fn, args := in.prepareCall(fr, &instr.Call)
		if instr.DeferStack != nil {
			panic(engineError{"range-over-func defer stacks not modelled"})
		}
		fr.defers = &deferred{fn: fn, args: args, instr: instr, tail: fr.defers}
	case *ssa.Go:
		fn, args := in.prepareCall(fr, &instr.Call)
		in.spawnGoroutine(fr, instr, fn, args)
	case *ssa.MakeChan:
		n, ok := in.conc(fr.get(instr.Size))
		if !ok {
			panic(engineError{"symbolic channel size"})
		}
		fr.set(instr, in.newChan(int(n)))
	case *ssa.Alloc:
		var addr *value
		if instr.Heap {
			addr = new(value)
			fr.set(instr, addr)
		} else {
			addr = fr.get(instr).(*value)
		}
		*addr = in.zero(deref(instr.Type()))
		in.noteAlloc(fr, addr)
	case *ssa.MakeSlice:
		c := in.concInt(fr.get(instr.Cap), "makeslice-cap", 1<<16)
		l := in.concInt(fr.get(instr.Len), "makeslice-len", 1<<16)
		if l < 0 || c < l {
			in.targetPanicStr("runtime error: makeslice: len out of range")
		}
		s := make([]value, c)
		tElt := instr.Type().Underlying().(*types.Slice).Elem()
		for i := range s {
			s[i] = in.zero(tElt)
		}
		in.noteAllocSlice(fr, s)
		fr.set(instr, s[:l])
	case *ssa.MakeMap:
		fr.set(instr, &mapV{keyT: instr.Type().Underlying().(*types.Map).Key()})
	case *ssa.Range:
		fr.set(instr, in.rangeIter(fr.get(instr.X), instr.X.Type()))
	case *ssa.Next:
		fr.set(instr, fr.get(instr.Iter).(iter).next(in))
	case *ssa.FieldAddr:
		p := fr.get(instr.X).(*value)
		if p == nil {
			in.targetPanicStr("runtime error: invalid memory address or nil pointer dereference")
		}
		fr.set(instr, &(*p).(structure)[instr.Field])
	case *ssa.Field:
		fr.set(instr, fr.get(instr.X).(structure)[instr.Field])
	case *ssa.IndexAddr:
		x := fr.get(instr.X)
		switch x := x.(type) {
		case []value:
			i := in.index(fr.get(instr.Index), len(x), instr.Index.Type())
			fr.set(instr, &x[i])
		case *value:
			if x == nil {
				in.targetPanicStr("runtime error: invalid memory address or nil pointer dereference")
			}
			a := (*x).(array)
			i := in.index(fr.get(instr.Index), len(a), instr.Index.Type())
			fr.set(instr, &a[i])
		default:
			panic(fmt.Sprintf("unexpected x type in IndexAddr: %T", x))
		}
	case *ssa.Index:
		x := fr.get(instr.X)
		switch x := x.(type) {
		case array:
			i := in.index(fr.get(instr.Index), len(x), instr.Index.Type())
			fr.set(instr, copyVal(x[i]))
		case Str:
			i := in.index(fr.get(instr.Index), len(x.b), instr.Index.Type())
			fr.set(instr, x.b[i])
		default:
			panic(fmt.Sprintf("unexpected x type in Index: %T", x))
		}
	case *ssa.Lookup:
		fr.set(instr, in.lookup(instr, fr.get(instr.X), fr.get(instr.Index)))
	case *ssa.MapUpdate:
		m := fr.get(instr.Map).(*mapV)
		if m == nil {
			in.targetPanicStr("assignment to entry in nil map")
		}
		in.mapUpdate(m, fr.get(instr.Key), fr.get(instr.Value))
	case *ssa.TypeAssert:
		fr.set(instr, in.typeAssert(instr, fr.get(instr.X).(iface)))
	case *ssa.MakeClosure:
		var bindings []value
		for _, b := range instr.Bindings {
			bindings = append(bindings, fr.get(b))
		}
		fr.set(instr, &closure{instr.Fn.(*ssa.Function), bindings})
	case *ssa.Phi:
		panic("unreachable: phi")
	case *ssa.Select:
		fr.set(instr, in.chanSelect(fr, instr))
	default:
		panic(engineError{fmt.Sprintf("unexpected instruction: %T", instr)})
	}
	return kNext
}

// index turns an index value into a concrete int in [0,n), forking over the
// feasible values when symbolic, and raising Go's run-time panic when out of range.
func (in *Interp) index(v value, n int, ty types.Type) int {
	t := v.(*Term)
	if t.isConst() {
		i := sext64(t.cv(), t.w)
		if !isSigned(ty) {
			i = int64(t.cv())
		}
		if i < 0 || i >= int64(n) {
			in.targetPanicStr(fmt.Sprintf("runtime error: index out of range [%d] with length %d", i, n))
		}
		return int(i)
	}
	t64 := t
	if t.w < 64 {
		if isSigned(ty) {
			t64 = in.tc.Sext(t, 64)
		} else {
			t64 = in.tc.Zext(t, 64)
		}
	}
	inRange := in.tc.bin(opBvULt, t64, in.tc.Const(64, uint64(n)))
	if !in.decideBool(inRange, "index-range") {
		in.targetPanicStr(fmt.Sprintf("runtime error: index out of range [symbolic] with length %d", n))
	}
	return int(in.concretize(t64, "index", uint64(n)))
}

func (in *Interp) concInt(v value, what string, bound uint64) int {
	t := v.(*Term)
	if t.isConst() {
		return int(sext64(t.cv(), t.w))
	}
	t64 := t
	if t.w < 64 {
		t64 = in.tc.Zext(t, 64)
	}
	return int(int64(in.concretize(t64, what, bound)))
}

func (in *Interp) prepareCall(fr *frame, call *ssa.CallCommon) (fn value, args []value) {
	v := fr.get(call.Value)
	if call.Method == nil {
		fn = v
	} else {
		recv := v.(iface)
		if recv.t == nil {
			in.targetPanicStr("runtime error: invalid memory address or nil pointer dereference (method call on nil interface)")
		}
		f := in.lookupMethod(recv.t, call.Method)
		if f == nil {
			panic(fmt.Sprintf("method set for dynamic type %v does not contain %s", recv.t, call.Method))
		}
		fn = f
		args = append(args, recv.v)
	}
	for _, arg := range call.Args {
		args = append(args, fr.get(arg))
	}
	return
}

func (in *Interp) call(caller *frame, callpos token.Pos, fn value, args []value) value {
	switch fn := fn.(type) {
	case *ssa.Function:
		if fn == nil {
			in.targetPanicStr("runtime error: invalid memory address or nil pointer dereference (call of nil func)")
		}
		return in.callSSA(caller, callpos, fn, args, nil)
	case *closure:
		if fn == nil {
			in.targetPanicStr("runtime error: invalid memory address or nil pointer dereference (call of nil func)")
		}
		return in.callSSA(caller, callpos, fn.Fn, args, fn.Env)
	case *ssa.Builtin:
		return in.callBuiltin(caller, callpos, fn, args)
	}
	panic(fmt.Sprintf("cannot call %T", fn))
}

func (in *Interp) callSSA(caller *frame, callpos token.Pos, fn *ssa.Function, args []value, env []value) value {
	var g *goroutine
	if caller != nil {
		g = caller.g
	} else {
		g = in.cur
	}
	fr := &frame{in: in, g: g, caller: caller, fn: fn, callPos: callpos}
	if fn.Parent() == nil {
		name := fn.String()
		if ext := intrinsics[name]; ext != nil {
			in.eng.stubUsed.Store(name, true)
			return ext(fr, args)
		}
		if fn.Blocks == nil && strings.HasPrefix(fn.Name(), "verif") {
			if ext := verifIntrinsics[fn.Name()]; ext != nil {
				return ext(fr, args)
			}
		}
		if fn.Name() == "init" && fn.Pkg != nil && fn.Pkg.Func("init") == fn {
			if _, own := in.eng.pkgs[fn.Pkg.Pkg.Path()]; !own && !initAllow[fn.Pkg.Pkg.Path()] {
				return nil
			}
		}
		if fn.Blocks == nil {
			if fn.Synthetic != "" && fn.Pkg == nil {
				// wrappers are built lazily by LookupMethod; they have blocks. Anything else:
			}
			panic(engineError{"no code for function: " + name})
		}
	}
	in.depth++
	if in.depth > in.cfg.MaxDepth {
		panic(pathAbort{"depth-limit"})
	}
	defer func() { in.depth-- }()
	if in.cfg.trackFns {
		in.eng.fnUsed.Store(fn, true)
	}
	fi := in.eng.info(fn)
	fr.fi = fi
	fr.env = make([]value, fi.n)
	fr.block = fn.Blocks[0]
	fr.locals = make([]value, len(fn.Locals))
	for i, l := range fn.Locals {
		fr.locals[i] = in.zero(deref(l.Type()))
		fr.env[fi.idx[l]] = &fr.locals[i]
	}
	for i, p := range fn.Params {
		fr.env[fi.idx[p]] = args[i]
	}
	for i, fv := range fn.FreeVars {
		fr.env[fi.idx[fv]] = env[i]
	}
	for fr.block != nil {
		in.runFrame(fr)
	}
	return fr.result
}

func (in *Interp) runFrame(fr *frame) {
	defer func() {
		if fr.block == nil {
			return
		}
		r := recover()
		switch r.(type) {
		case pathAbort, engineError:
			panic(r)
		case targetPanic:
			if os.Getenv("VERIF_PANIC_TRACE") != "" && !fr.panicking {
				fmt.Fprintf(os.Stderr, "target panic in %s (block %d) %v\n", fr.fn.String(), fr.block.Index, in.eng.prog.Fset.Position(fr.callPos))
			}
		default:
			// interpreter bug or Go runtime error inside the engine
			panic(r)
		}
		fr.panicking = true
		fr.panic = r
		fr.runDefers() // re-panics unless recovered
		fr.block = fr.fn.Recover
		if fr.block == nil {
			// recovered in a function without named results: return zero values
			fr.result = in.zero(fr.fn.Signature.Results())
		}
	}()
	for {
		nonPhis := executePhis(fr)
		for _, instr := range nonPhis {
			if in.visitInstr(fr, instr) == kReturn {
				return
			}
		}
	}
}

func executePhis(fr *frame) []ssa.Instruction {
	firstNonPhi := -1
	for i, instr := range fr.block.Instrs {
		if _, ok := instr.(*ssa.Phi); !ok {
			firstNonPhi = i
			break
		}
	}
	nonPhis := fr.block.Instrs[firstNonPhi:]
	if firstNonPhi > 0 {
		phis := fr.block.Instrs[:firstNonPhi]
		predIndex := slices.Index(fr.block.Preds, fr.prevBlock)
		fr.phitemps = fr.phitemps[:0]
		for _, phi := range phis {
			phi := phi.(*ssa.Phi)
			fr.phitemps = append(fr.phitemps, fr.get(phi.Edges[predIndex]))
		}
		for i, phi := range phis {
			fr.set(phi.(*ssa.Phi), fr.phitemps[i])
		}
	}
	return nonPhis
}

func (in *Interp) doRecover(caller *frame) value {
	if caller != nil && !caller.panicking && caller.caller != nil && caller.caller.panicking {
		caller.caller.panicking = false
		p := caller.caller.panic
		caller.caller.panic = nil
		switch p := p.(type) {
		case targetPanic:
			return p.v
		default:
			panic(fmt.Sprintf("unexpected panic type %T in recover()", p))
		}
	}
	return iface{}
}
