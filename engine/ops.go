package main

import (
	"fmt"
	"go/constant"
	"go/token"
	"go/types"

	"golang.org/x/tools/go/ssa"
)

func constantBool(c *ssa.Const) bool     { return constant.BoolVal(c.Value) }
func constantString(c *ssa.Const) string { return constant.StringVal(c.Value) }

func (in *Interp) load(fr *frame, p *value, instr ssa.Instruction) value {
	if p == nil {
		in.targetPanicStr("runtime error: invalid memory address or nil pointer dereference")
	}
	in.noteAccess(fr, p, false, instr)
	return copyVal(*p)
}

func (in *Interp) store(fr *frame, p *value, v value, instr ssa.Instruction) {
	if p == nil {
		in.targetPanicStr("runtime error: invalid memory address or nil pointer dereference")
	}
	in.noteAccess(fr, p, true, instr)
	assignInPlace(p, v)
}

// assignInPlace stores v into *dst. A struct or array value is copied field by field into the
// existing cells: addresses of fields taken earlier (&x.f, then *x = T{...}, then *(&x.f) = ...,
// which is how go/ssa lowers a composite literal assigned through a pointer) stay valid, as they
// do in memory.
func assignInPlace(dst *value, v value) {
	switch nv := v.(type) {
	case structure:
		if old, ok := (*dst).(structure); ok && len(old) == len(nv) {
			for i := range nv {
				assignInPlace(&old[i], nv[i])
			}
			return
		}
	case array:
		if old, ok := (*dst).(array); ok && len(old) == len(nv) {
			for i := range nv {
				assignInPlace(&old[i], nv[i])
			}
			return
		}
	}
	*dst = copyVal(v)
}

func (in *Interp) unop(fr *frame, instr *ssa.UnOp, x value) value {
	tc := in.tc
	switch instr.Op {
	case token.ARROW:
		return in.chanRecv(fr, x.(*chanV), instr.CommaOk, instr.X.Type().Underlying().(*types.Chan).Elem())
	case token.MUL:
		return in.load(fr, x.(*value), instr)
	case token.SUB:
		switch x := x.(type) {
		case *Term:
			return tc.un(opBvNeg, x)
		case float64:
			return -x
		}
	case token.NOT:
		return tc.Not(x.(*Term))
	case token.XOR:
		return tc.un(opBvNot, x.(*Term))
	}
	panic(engineError{fmt.Sprintf("unop %s on %T", instr.Op, x)})
}

func (in *Interp) binop(op token.Token, t types.Type, x, y value) value {
	tc := in.tc
	switch op {
	case token.EQL:
		return in.equals(t, x, y)
	case token.NEQ:
		return tc.Not(in.equals(t, x, y))
	}
	switch x := x.(type) {
	case *Term:
		yt := y.(*Term)
		signed := isSigned(t)
		if x.w == 0 {
			switch op {
			case token.AND, token.LAND:
				return tc.And(x, yt)
			case token.OR, token.LOR:
				return tc.Or(x, yt)
			}
			panic(engineError{"bool binop " + op.String()})
		}
		switch op {
		case token.ADD:
			return tc.bin(opBvAdd, x, yt)
		case token.SUB:
			return tc.bin(opBvSub, x, yt)
		case token.MUL:
			return tc.bin(opBvMul, x, yt)
		case token.QUO, token.REM:
			if yt.isConst() {
				if yt.cv() == 0 {
					in.targetPanicStr("runtime error: integer divide by zero")
				}
			} else {
				if in.decideBool(tc.Eq(yt, tc.Const(yt.w, 0)), "div-zero") {
					in.targetPanicStr("runtime error: integer divide by zero")
				}
			}
			if signed {
				if op == token.QUO {
					return tc.bin(opBvSDiv, x, yt)
				}
				return tc.bin(opBvSRem, x, yt)
			}
			if op == token.QUO {
				return tc.bin(opBvUDiv, x, yt)
			}
			return tc.bin(opBvURem, x, yt)
		case token.AND:
			return tc.bin(opBvAnd, x, yt)
		case token.OR:
			return tc.bin(opBvOr, x, yt)
		case token.XOR:
			return tc.bin(opBvXor, x, yt)
		case token.AND_NOT:
			return tc.bin(opBvAnd, x, tc.un(opBvNot, yt))
		case token.SHL, token.SHR:
			// shift count: unsigned (or non-negative); widths may differ
			cnt := yt
			if cnt.w < x.w {
				cnt = tc.Zext(cnt, x.w)
			} else if cnt.w > x.w {
				// saturate: if any high bit set the result is as for count >= width
				hi := tc.Extract(cnt, x.w, cnt.w-x.w)
				lo := tc.Extract(cnt, 0, x.w)
				cnt = tc.Ite(tc.Eq(hi, tc.Const(hi.w, 0)), lo, tc.Const(x.w, uint64(x.w)))
			}
			if op == token.SHL {
				return tc.bin(opBvShl, x, cnt)
			}
			if signed {
				return tc.bin(opBvAShr, x, cnt)
			}
			return tc.bin(opBvLShr, x, cnt)
		case token.LSS:
			if signed {
				return tc.bin(opBvSLt, x, yt)
			}
			return tc.bin(opBvULt, x, yt)
		case token.LEQ:
			if signed {
				return tc.bin(opBvSLe, x, yt)
			}
			return tc.bin(opBvULe, x, yt)
		case token.GTR:
			if signed {
				return tc.bin(opBvSLt, yt, x)
			}
			return tc.bin(opBvULt, yt, x)
		case token.GEQ:
			if signed {
				return tc.bin(opBvSLe, yt, x)
			}
			return tc.bin(opBvULe, yt, x)
		}
	case Str:
		ys := y.(Str)
		switch op {
		case token.ADD:
			b := make([]*Term, 0, len(x.b)+len(ys.b))
			b = append(b, x.b...)
			b = append(b, ys.b...)
			return Str{b}
		case token.LSS:
			return tc.bin(opBvSLt, in.bytesCmp(x.b, ys.b), tc.Const(64, 0))
		case token.LEQ:
			return tc.bin(opBvSLe, in.bytesCmp(x.b, ys.b), tc.Const(64, 0))
		case token.GTR:
			return tc.bin(opBvSLt, tc.Const(64, 0), in.bytesCmp(x.b, ys.b))
		case token.GEQ:
			return tc.bin(opBvSLe, tc.Const(64, 0), in.bytesCmp(x.b, ys.b))
		}
	case float64:
		yf := y.(float64)
		switch op {
		case token.ADD:
			return x + yf
		case token.SUB:
			return x - yf
		case token.MUL:
			return x * yf
		case token.QUO:
			return x / yf
		case token.LSS:
			return tc.Bool(x < yf)
		case token.LEQ:
			return tc.Bool(x <= yf)
		case token.GTR:
			return tc.Bool(x > yf)
		case token.GEQ:
			return tc.Bool(x >= yf)
		}
	}
	panic(engineError{fmt.Sprintf("binop %s on %T", op, x)})
}

func (in *Interp) conv(tDst, tSrc types.Type, x value) value {
	tc := in.tc
	ud, us := tDst.Underlying(), tSrc.Underlying()
	switch ud := ud.(type) {
	case *types.Pointer, *types.Signature, *types.Chan, *types.Map, *types.Struct, *types.Interface:
		return x
	case *types.Slice:
		// string -> []byte / []rune
		if s, ok := x.(Str); ok {
			eb, _ := ud.Elem().Underlying().(*types.Basic)
			if eb != nil && eb.Kind() == types.Uint8 {
				out := make([]value, len(s.b))
				for i, b := range s.b {
					out[i] = b
				}
				return out
			}
			panic(engineError{"string->[]rune not modelled"})
		}
		return x
	case *types.Basic:
		switch x := x.(type) {
		case []value:
			if ud.Info()&types.IsString != 0 {
				b := make([]*Term, len(x))
				for i, e := range x {
					b[i] = e.(*Term)
				}
				return Str{b}
			}
		case Str:
			if ud.Info()&types.IsString != 0 {
				return x
			}
		case float64:
			if ud.Info()&types.IsFloat != 0 {
				return x
			}
			if ud.Info()&types.IsInteger != 0 {
				return tc.Const(in.widthOf(ud), uint64(int64(x)))
			}
		case *Term:
			if ud.Kind() == types.UnsafePointer {
				panic(engineError{"conversion to unsafe.Pointer"})
			}
			if ud.Info()&types.IsString != 0 {
				// integer -> string (rune)
				if x.isConst() {
					return in.strConst(string(rune(sext64(x.cv(), x.w))))
				}
				panic(engineError{"symbolic rune->string"})
			}
			if ud.Info()&types.IsFloat != 0 {
				if x.isConst() {
					if isSigned(us) {
						return float64(sext64(x.cv(), x.w))
					}
					return float64(x.cv())
				}
				panic(engineError{"symbolic int->float"})
			}
			if ud.Info()&types.IsBoolean != 0 {
				return x
			}
			wd := in.widthOf(ud)
			switch {
			case wd == x.w:
				return x
			case wd < x.w:
				return tc.Extract(x, 0, wd)
			default:
				if isSigned(us) {
					return tc.Sext(x, wd)
				}
				return tc.Zext(x, wd)
			}
		}
	}
	panic(engineError{fmt.Sprintf("conv %s -> %s (%T)", tSrc, tDst, x)})
}

func (in *Interp) optInt(v value, def int) int {
	if v == nil {
		return def
	}
	return in.concInt(v, "slice-bound", 1<<16)
}

func (in *Interp) slice(instr *ssa.Slice, x, lo, hi, max value) value {
	switch x := x.(type) {
	case Str:
		l := in.optInt(lo, 0)
		h := in.optInt(hi, len(x.b))
		if l < 0 || h > len(x.b) || l > h {
			in.targetPanicStr(fmt.Sprintf("runtime error: slice bounds out of range [%d:%d] with length %d", l, h, len(x.b)))
		}
		return Str{x.b[l:h]}
	case []value:
		l := in.optInt(lo, 0)
		h := in.optInt(hi, len(x))
		m := in.optInt(max, cap(x))
		if l < 0 || h > cap(x) || l > h || m > cap(x) || h > m {
			in.targetPanicStr(fmt.Sprintf("runtime error: slice bounds out of range [%d:%d:%d] with capacity %d", l, h, m, cap(x)))
		}
		if x == nil {
			return x
		}
		return x[l:h:m]
	case *value: // *array
		if x == nil {
			in.targetPanicStr("runtime error: invalid memory address or nil pointer dereference")
		}
		a := (*x).(array)
		l := in.optInt(lo, 0)
		h := in.optInt(hi, len(a))
		m := in.optInt(max, len(a))
		if l < 0 || h > len(a) || l > h || m > len(a) || h > m {
			in.targetPanicStr(fmt.Sprintf("runtime error: slice bounds out of range [%d:%d:%d] with capacity %d", l, h, m, len(a)))
		}
		return []value(a)[l:h:m]
	}
	panic(engineError{fmt.Sprintf("slice: unexpected X type: %T", x)})
}

// ---- maps ----

func (in *Interp) mapFind(m *mapV, key value) int {
	for i, k := range m.keys {
		e := in.equals(m.keyT, k, key)
		if e.isTrue() {
			return i
		}
		if e.isFalse() {
			continue
		}
		if in.decideBool(e, "map-key") {
			return i
		}
	}
	return -1
}

func (in *Interp) mapUpdate(m *mapV, key, val value) {
	if i := in.mapFind(m, key); i >= 0 {
		m.vals[i] = copyVal(val)
		return
	}
	m.keys = append(m.keys, copyVal(key))
	m.vals = append(m.vals, copyVal(val))
}

func (in *Interp) lookup(instr *ssa.Lookup, x, idx value) value {
	switch x := x.(type) {
	case *mapV:
		var v value
		ok := false
		if x != nil {
			if i := in.mapFind(x, idx); i >= 0 {
				v = copyVal(x.vals[i])
				ok = true
			}
		}
		if !ok {
			v = in.zero(instr.X.Type().Underlying().(*types.Map).Elem())
		}
		if instr.CommaOk {
			return tuple{v, in.tc.Bool(ok)}
		}
		return v
	case Str:
		i := in.index(idx, len(x.b), instr.Index.Type())
		return x.b[i]
	}
	panic(engineError{fmt.Sprintf("lookup on %T", x)})
}

type iter interface {
	next(in *Interp) tuple
}

type mapIter struct {
	m *mapV
	i int
}

func (it *mapIter) next(in *Interp) tuple {
	if it.m == nil || it.i >= len(it.m.keys) {
		return tuple{in.tc.tFalse, nil, nil}
	}
	k, v := it.m.keys[it.i], it.m.vals[it.i]
	it.i++
	return tuple{in.tc.tTrue, copyVal(k), copyVal(v)}
}

type strIter struct {
	s Str
	i int
}

func (it *strIter) next(in *Interp) tuple {
	if it.i >= len(it.s.b) {
		return tuple{in.tc.tFalse, in.tc.Const(64, 0), in.tc.Const(32, 0)}
	}
	b := it.s.b[it.i]
	if !b.isConst() || b.cv() >= 0x80 {
		panic(engineError{"range over non-ASCII/symbolic string"})
	}
	r := tuple{in.tc.tTrue, in.tc.Const(64, uint64(it.i)), in.tc.Const(32, b.cv())}
	it.i++
	return r
}

func (in *Interp) rangeIter(x value, t types.Type) iter {
	switch x := x.(type) {
	case *mapV:
		return &mapIter{m: x}
	case Str:
		return &strIter{s: x}
	}
	panic(engineError{fmt.Sprintf("range over %T", x)})
}

func (in *Interp) typeAssert(instr *ssa.TypeAssert, itf iface) value {
	var v value
	ok := false
	if idst, isI := instr.AssertedType.Underlying().(*types.Interface); isI {
		if itf.t != nil && types.Implements(itf.t, idst) {
			v = itf
			ok = true
		}
	} else if itf.t != nil && types.Identical(itf.t, instr.AssertedType) {
		v = copyVal(itf.v)
		ok = true
	}
	if !ok {
		if instr.CommaOk {
			return tuple{in.zero(instr.AssertedType), in.tc.tFalse}
		}
		got := "nil"
		if itf.t != nil {
			got = itf.t.String()
		}
		in.targetPanicStr(fmt.Sprintf("interface conversion: interface is %s, not %s", got, instr.AssertedType))
	}
	if instr.CommaOk {
		return tuple{v, in.tc.tTrue}
	}
	return v
}

// ---- builtins ----

func (in *Interp) callBuiltin(caller *frame, callpos token.Pos, fn *ssa.Builtin, args []value) value {
	tc := in.tc
	switch fn.Name() {
	case "append":
		if len(args) == 1 {
			return args[0]
		}
		var ys []value
		switch y := args[1].(type) {
		case Str:
			ys = make([]value, len(y.b))
			for i, b := range y.b {
				ys[i] = b
			}
		case []value:
			ys = y
		}
		xs, _ := args[0].([]value)
		elemT := fn.Type().(*types.Signature).Params().At(0).Type().Underlying().(*types.Slice).Elem()
		return in.appendSlice(caller, xs, ys, elemT)
	case "copy":
		dst := args[0].([]value)
		var n int
		switch src := args[1].(type) {
		case []value:
			// Go's copy handles overlap like memmove
			tmp := make([]value, len(src))
			for i := range src {
				tmp[i] = copyVal(src[i])
			}
			n = copy(dst, tmp)
		case Str:
			n = len(src.b)
			if len(dst) < n {
				n = len(dst)
			}
			for i := 0; i < n; i++ {
				dst[i] = src.b[i]
			}
		}
		for i := 0; i < n; i++ {
			in.noteAccess(caller, &dst[i], true, nil)
		}
		return tc.Const(64, uint64(n))
	case "len":
		switch x := args[0].(type) {
		case Str:
			return tc.Const(64, uint64(len(x.b)))
		case array:
			return tc.Const(64, uint64(len(x)))
		case *value:
			return tc.Const(64, uint64(len((*x).(array))))
		case []value:
			return tc.Const(64, uint64(len(x)))
		case *mapV:
			if x == nil {
				return tc.Const(64, 0)
			}
			return tc.Const(64, uint64(len(x.keys)))
		case *chanV:
			if x == nil {
				return tc.Const(64, 0)
			}
			return tc.Const(64, uint64(len(x.buf)))
		}
		panic(engineError{fmt.Sprintf("len of %T", args[0])})
	case "cap":
		switch x := args[0].(type) {
		case array:
			return tc.Const(64, uint64(len(x)))
		case *value:
			return tc.Const(64, uint64(len((*x).(array))))
		case []value:
			return tc.Const(64, uint64(cap(x)))
		case *chanV:
			if x == nil {
				return tc.Const(64, 0)
			}
			return tc.Const(64, uint64(x.cap))
		}
		panic(engineError{fmt.Sprintf("cap of %T", args[0])})
	case "delete":
		m := args[0].(*mapV)
		if m != nil {
			if i := in.mapFind(m, args[1]); i >= 0 {
				m.keys = append(m.keys[:i:i], m.keys[i+1:]...)
				m.vals = append(m.vals[:i:i], m.vals[i+1:]...)
			}
		}
		return nil
	case "print", "println":
		return nil
	case "panic":
		panic(targetPanic{args[0]})
	case "recover":
		return in.doRecover(caller)
	case "close":
		in.chanClose(caller, args[0].(*chanV))
		return nil
	case "min", "max":
		panic(engineError{"min/max builtin not modelled"})
	case "ssa:wrapnilchk":
		recv := args[0]
		if p, ok := recv.(*value); ok && p == nil {
			in.targetPanicStr("value method called using nil pointer")
		}
		return recv
	}
	panic(engineError{"unknown builtin " + fn.Name()})
}

// appendSlice implements append with the run-time's growth policy
// (runtime.growslice + roundupsize), so that aliasing after append is exact.
func (in *Interp) appendSlice(fr *frame, xs, ys []value, elemT types.Type) []value {
	n := len(xs) + len(ys)
	if n <= cap(xs) {
		// memmove semantics: the source may overlap the destination
		ys = append([]value(nil), ys...)
		out := xs[:n]
		for i, y := range ys {
			out[len(xs)+i] = copyVal(y)
			in.noteAccess(fr, &out[len(xs)+i], true, nil)
		}
		if xs == nil && n == 0 {
			return xs
		}
		return out
	}
	esz := in.eng.sizes.Sizeof(elemT)
	newcap := growCap(cap(xs), n, int(esz), !hasPointers(elemT))
	out := make([]value, n, newcap)
	for i := range xs {
		out[i] = copyVal(xs[i])
	}
	for i, y := range ys {
		out[len(xs)+i] = copyVal(y)
	}
	full := out[:newcap]
	for i := n; i < newcap; i++ {
		full[i] = in.zero(elemT)
	}
	in.noteAllocSlice(fr, full)
	return out
}

var sizeClasses = []int{0, 8, 16, 24, 32, 48, 64, 80, 96, 112, 128, 144, 160, 176, 192, 208, 224, 240, 256, 288, 320, 352, 384, 416, 448, 480, 512, 576, 640, 704, 768, 896, 1024, 1152, 1280, 1408, 1536, 1792, 2048, 2304, 2688, 3072, 3200, 3456, 4096, 4864, 5376, 6144, 6528, 6784, 6912, 8192, 9472, 9728, 10240, 10880, 12288, 13568, 14336, 16384, 18432, 19072, 20480, 21760, 24576, 27264, 28672, 32768}

func roundupsize(size int, noscan bool) int {
	req := size
	if req <= 32768-8 {
		if !noscan && req > 512 {
			req += 8 // malloc header (go1.22+)
		}
		for _, c := range sizeClasses {
			if c >= req {
				return c - (req - size)
			}
		}
	}
	const page = 8192
	return (size + page - 1) / page * page
}

func hasPointers(t types.Type) bool {
	switch t := t.Underlying().(type) {
	case *types.Basic:
		return t.Kind() == types.String || t.Kind() == types.UnsafePointer
	case *types.Array:
		return hasPointers(t.Elem())
	case *types.Struct:
		for i := 0; i < t.NumFields(); i++ {
			if hasPointers(t.Field(i).Type()) {
				return true
			}
		}
		return false
	}
	return true
}

// growCap mirrors runtime.growslice (go1.20+ policy) for element size esz.
func growCap(oldCap, newLen, esz int, noscan bool) int {
	newcap := oldCap
	doublecap := newcap + newcap
	if newLen > doublecap {
		newcap = newLen
	} else {
		const threshold = 256
		if oldCap < threshold {
			newcap = doublecap
		} else {
			for newcap < newLen {
				newcap += (newcap + 3*threshold) >> 2
			}
		}
	}
	if esz == 0 {
		return newcap
	}
	mem := roundupsize(newcap*esz, noscan)
	return mem / esz
}
