package main

// A small decision procedure for the unsigned order facts on the path
// condition (x < y, x <= y, x = y, x != y over bit-vector terms and
// constants). Branch conditions that follow from those facts by transitivity
// are decided here instead of by a solver call. Everything it concludes is
// implied by the path condition, so it only saves queries.

type ordEdge struct {
	to     int
	strict bool
}

type orderFacts struct {
	terms  map[int]*Term
	out    map[int][]ordEdge
	diseq  map[[2]int]bool
	consts []int // ids of constant nodes seen
}

func newOrderFacts() *orderFacts {
	return &orderFacts{terms: map[int]*Term{}, out: map[int][]ordEdge{}, diseq: map[[2]int]bool{}}
}

func (o *orderFacts) node(t *Term) {
	if _, ok := o.terms[t.id]; ok {
		return
	}
	o.terms[t.id] = t
	if t.isConst() {
		o.consts = append(o.consts, t.id)
	}
}

func (o *orderFacts) addLE(a, b *Term, strict bool) {
	if a.w != b.w || a.w == 0 {
		return
	}
	o.node(a)
	o.node(b)
	o.out[a.id] = append(o.out[a.id], ordEdge{b.id, strict})
}

func (o *orderFacts) addNE(a, b *Term) {
	if a.w != b.w || a.w == 0 {
		return
	}
	o.node(a)
	o.node(b)
	k := [2]int{a.id, b.id}
	if a.id > b.id {
		k = [2]int{b.id, a.id}
	}
	o.diseq[k] = true
}

// reach: 0 = no path a->b; 1 = path using only <= ; 2 = path with a strict step
func (o *orderFacts) reach(a, b *Term) int {
	if a.w != b.w {
		return 0
	}
	if a.isConst() && b.isConst() {
		switch {
		case a.cv() < b.cv():
			return 2
		case a.cv() == b.cv():
			return 1
		}
		return 0
	}
	_, okA := o.terms[a.id]
	_, okB := o.terms[b.id]
	if !okA && !a.isConst() || !okB && !b.isConst() {
		if a == b {
			return 1
		}
		return 0
	}
	best := map[int]int{a.id: 1}
	queue := []int{a.id}
	w := a.w
	step := func(to int, st int) {
		if best[to] < st {
			best[to] = st
			queue = append(queue, to)
		}
	}
	for len(queue) > 0 {
		x := queue[0]
		queue = queue[1:]
		st := best[x]
		for _, e := range o.out[x] {
			ns := st
			if e.strict {
				ns = 2
			}
			step(e.to, ns)
		}
		var xt *Term
		if x == a.id {
			xt = a
		} else {
			xt = o.terms[x]
		}
		if xt != nil && xt.isConst() {
			// implicit edges between constants of the same width
			for _, cid := range o.consts {
				ct := o.terms[cid]
				if ct.w != w || cid == x {
					continue
				}
				if ct.cv() > xt.cv() {
					step(cid, 2)
				}
			}
			if b.isConst() && b.w == w {
				if b.cv() > xt.cv() {
					step(b.id, 2)
				} else if b.cv() == xt.cv() {
					step(b.id, st)
				}
			}
		}
	}
	return best[b.id]
}

func (o *orderFacts) ne(a, b *Term) bool {
	k := [2]int{a.id, b.id}
	if a.id > b.id {
		k = [2]int{b.id, a.id}
	}
	return o.diseq[k]
}

// lt: 1 if a<b follows, 0 if a>=b follows, -1 unknown
func (o *orderFacts) lt(a, b *Term) int8 {
	ab := o.reach(a, b)
	if ab == 2 {
		return 1
	}
	ba := o.reach(b, a)
	if ba >= 1 {
		return 0
	}
	if ab == 1 && o.ne(a, b) {
		return 1
	}
	// bounds against the extreme values of the width
	if b.isConst() && b.cv() == 0 {
		return 0
	}
	if a.isConst() && a.cv() == mask(a.w) {
		return 0
	}
	return -1
}

func (o *orderFacts) le(a, b *Term) int8 {
	r := o.lt(b, a)
	if r < 0 {
		return -1
	}
	return 1 - r
}

func (o *orderFacts) eq(a, b *Term) int8 {
	ab, ba := o.reach(a, b), o.reach(b, a)
	if ab == 2 || ba == 2 || o.ne(a, b) {
		return 0
	}
	if ab == 1 && ba == 1 {
		return 1
	}
	return -1
}
