package main

// One long-lived solver process per worker, SMT-LIB2 over a pipe.
// A path lives inside one (push 1)/(pop 1) scope.

import (
	"bufio"
	"fmt"
	"io"
	"os/exec"
	"strconv"
	"strings"
	"time"
)

type SolverStats struct {
	Queries     int
	Sat         int
	Unsat       int
	Unknown     int
	Errors      int
	Seconds     float64
	ByKind      map[string]int
	MaxQuerySec float64
	// cross-solver re-decision of whole path transcripts (every query of a sampled path)
	CrossPaths     int
	CrossQueries   int
	CrossAgree     int
	CrossUnknown   int
	CrossDisagree  int
	CrossSeconds   float64
	CrossDisagreed []string
}

func (s *SolverStats) add(o *SolverStats) {
	s.Queries += o.Queries
	s.Sat += o.Sat
	s.Unsat += o.Unsat
	s.Unknown += o.Unknown
	s.Errors += o.Errors
	s.Seconds += o.Seconds
	s.CrossPaths += o.CrossPaths
	s.CrossQueries += o.CrossQueries
	s.CrossAgree += o.CrossAgree
	s.CrossUnknown += o.CrossUnknown
	s.CrossDisagree += o.CrossDisagree
	s.CrossSeconds += o.CrossSeconds
	if len(s.CrossDisagreed) < 5 {
		s.CrossDisagreed = append(s.CrossDisagreed, o.CrossDisagreed...)
	}
	if o.MaxQuerySec > s.MaxQuerySec {
		s.MaxQuerySec = o.MaxQuerySec
	}
	if s.ByKind == nil {
		s.ByKind = map[string]int{}
	}
	for k, v := range o.ByKind {
		s.ByKind[k] += v
	}
}

type Solver struct {
	cmd         *exec.Cmd
	in          io.WriteCloser
	out         *bufio.Reader
	argv        []string
	timeoutMs   int
	stats       SolverStats
	inPath      bool
	defined     map[int]bool
	declared    map[string]bool
	declOrder   []string
	declW       map[string]int
	buf         strings.Builder
	dump        io.Writer
	pathLog     strings.Builder // everything asserted/defined on the current path (for the fallback solver)
	fallback    []string
	fbStats     struct{ Calls, Sat, Unsat, Unknown int }
	pathsServed int
	// cross-solver checking: the transcript of every crossEvery-th path (all commands sent between
	// its push and pop, minus get-value) is replayed through the other solvers and the sequence of
	// sat/unsat answers compared with what the working solver said
	crossEvery int
	cross      [][]string
	recording  bool
	tx         strings.Builder
	txAns      []string
}

func newSolver(argv []string, timeoutMs int) *Solver {
	s := &Solver{argv: argv, timeoutMs: timeoutMs}
	s.stats.ByKind = map[string]int{}
	s.start()
	return s
}

func (s *Solver) start() {
	s.cmd = exec.Command(s.argv[0], s.argv[1:]...)
	var err error
	s.in, err = s.cmd.StdinPipe()
	if err != nil {
		panic(err)
	}
	o, err := s.cmd.StdoutPipe()
	if err != nil {
		panic(err)
	}
	s.out = bufio.NewReaderSize(o, 1<<20)
	if err := s.cmd.Start(); err != nil {
		panic(err)
	}
	s.send("(set-option :print-success false)\n")
	if strings.Contains(s.argv[0], "z3") {
		s.send(fmt.Sprintf("(set-option :timeout %d)\n", s.timeoutMs))
	}
	s.inPath = false
}

func (s *Solver) close() {
	if s.cmd != nil {
		s.in.Close()
		s.cmd.Process.Kill()
		s.cmd.Wait()
		s.cmd = nil
	}
}

func (s *Solver) send(txt string) {
	if s.dump != nil {
		io.WriteString(s.dump, txt)
	}
	if s.recording && !strings.HasPrefix(txt, "(get-value") && !strings.HasPrefix(txt, "(set-option") {
		s.tx.WriteString(txt)
	}
	io.WriteString(s.in, txt)
}

func (s *Solver) beginPath() {
	s.endPath()
	// z3 keeps memory for definitions made inside popped scopes and slows down over thousands of
	// paths: a fresh process every so often keeps per-query time flat (start-up is ~100 ms).
	s.pathsServed++
	if s.pathsServed%500 == 0 {
		s.close()
		s.start()
	}
	s.defined = map[int]bool{}
	s.declared = map[string]bool{}
	s.declOrder = nil
	s.declW = map[string]int{}
	s.pathLog.Reset()
	s.tx.Reset()
	s.txAns = s.txAns[:0]
	s.recording = s.crossEvery > 0 && len(s.cross) > 0 && s.pathsServed%s.crossEvery == 1%s.crossEvery
}

func (s *Solver) ensureScope() {
	if !s.inPath {
		s.send("(push 1)\n")
		s.inPath = true
	}
}

func (s *Solver) endPath() {
	if s.inPath {
		s.send("(pop 1)\n")
		s.inPath = false
	}
	if s.recording {
		s.recording = false
		if len(s.txAns) > 0 {
			s.crossCheck()
		}
	}
}

// crossCheck replays the recorded transcript of the path just finished through every cross solver.
func (s *Solver) crossCheck() {
	t0 := time.Now()
	defer func() { s.stats.CrossSeconds += time.Since(t0).Seconds() }()
	s.stats.CrossPaths++
	for _, argv := range s.cross {
		script := s.tx.String()
		if strings.Contains(argv[0], "cvc5") {
			script = "(set-logic QF_BV)\n" + script
		}
		cmd := exec.Command(argv[0], argv[1:]...)
		cmd.Stdin = strings.NewReader(script)
		out, _ := cmd.Output()
		var got []string
		bad := false
		for _, l := range strings.Split(string(out), "\n") {
			l = strings.TrimSpace(l)
			switch {
			case l == "sat" || l == "unsat" || l == "unknown" || l == "timeout":
				got = append(got, l)
			case strings.HasPrefix(l, "(error"):
				bad = true
			}
		}
		if bad || len(got) != len(s.txAns) {
			// the other solver rejected the script or died: inconclusive for every query of the path
			s.stats.CrossQueries += len(s.txAns)
			s.stats.CrossUnknown += len(s.txAns)
			continue
		}
		for i, a := range s.txAns {
			s.stats.CrossQueries++
			b := got[i]
			switch {
			case (a != "sat" && a != "unsat") || (b != "sat" && b != "unsat"):
				s.stats.CrossUnknown++
			case a == b:
				s.stats.CrossAgree++
			default:
				s.stats.CrossDisagree++
				if len(s.stats.CrossDisagreed) < 5 {
					s.stats.CrossDisagreed = append(s.stats.CrossDisagreed, fmt.Sprintf("query %d of a path: %s says %s, %s says %s", i, s.argv[0], a, argv[0], b))
				}
			}
		}
	}
}

// define emits declarations/definitions for every node under t that the
// solver has not seen on this path.
func (s *Solver) define(t *Term) {
	if t.op == opConst || s.defined[t.id] {
		return
	}
	s.defined[t.id] = true
	switch t.op {
	case opVar:
		if !s.declared[t.name] {
			s.declared[t.name] = true
			s.declOrder = append(s.declOrder, t.name)
			s.declW[t.name] = t.w
			fmt.Fprintf(&s.buf, "(declare-const %s %s)\n", t.name, sortName(t.w))
		}
		return
	case opHashByte:
		if t.hc.conc == nil {
			n := t.leafName()
			if !s.declared[n] {
				s.declared[n] = true
				s.declOrder = append(s.declOrder, n)
				s.declW[n] = 8
				fmt.Fprintf(&s.buf, "(declare-const %s (_ BitVec 8))\n", n)
			}
		}
		return
	}
	for _, a := range t.args {
		s.define(a)
	}
	fmt.Fprintf(&s.buf, "(define-fun t%d () %s %s)\n", t.id, sortName(t.w), t.body())
}

func (s *Solver) assert(t *Term) {
	s.ensureScope()
	s.buf.Reset()
	s.define(t)
	fmt.Fprintf(&s.buf, "(assert %s)\n", t.leafName())
	s.pathLog.WriteString(s.buf.String())
	s.send(s.buf.String())
}

func (s *Solver) readLine() string {
	line, err := s.out.ReadString('\n')
	if err != nil {
		return "(error \"solver died: " + err.Error() + "\")"
	}
	return strings.TrimSpace(line)
}

// readSexp reads one balanced s-expression (possibly spanning lines).
func (s *Solver) readSexp() string {
	var sb strings.Builder
	depth := 0
	started := false
	for {
		line, err := s.out.ReadString('\n')
		if err != nil {
			return sb.String()
		}
		sb.WriteString(line)
		inStr := false
		for _, ch := range line {
			if ch == '"' {
				inStr = !inStr
			}
			if inStr {
				continue
			}
			if ch == '(' {
				depth++
				started = true
			} else if ch == ')' {
				depth--
			}
		}
		if started && depth <= 0 {
			return sb.String()
		}
		if !started && strings.TrimSpace(line) != "" {
			return sb.String()
		}
	}
}

// check decides satisfiability of (asserted PC) /\ extra. When sat and
// wantModel, the values of all declared constants are returned.
func (s *Solver) check(kind string, extra *Term, wantModel bool) (res string, model Model) {
	s.ensureScope()
	s.buf.Reset()
	if extra != nil {
		s.define(extra)
		s.pathLog.WriteString(s.buf.String())
		fmt.Fprintf(&s.buf, "(push 1)\n(assert %s)\n", extra.leafName())
	}
	s.buf.WriteString("(check-sat)\n")
	t0 := time.Now()
	s.send(s.buf.String())
	res = s.readLine()
	for res == "" {
		res = s.readLine()
	}
	dt := time.Since(t0).Seconds()
	if s.recording {
		s.txAns = append(s.txAns, res)
	}
	s.stats.Queries++
	s.stats.ByKind[kind]++
	s.stats.Seconds += dt
	if dt > s.stats.MaxQuerySec {
		s.stats.MaxQuerySec = dt
	}
	switch {
	case res == "sat":
		s.stats.Sat++
	case res == "unsat":
		s.stats.Unsat++
	case res == "unknown" || res == "timeout":
		res = "unknown"
		if len(s.fallback) > 0 {
			if extra != nil {
				s.send("(pop 1)\n")
			}
			r2, m2 := s.runFallback(extra, wantModel)
			s.stats.ByKind["fallback:"+r2]++
			switch r2 {
			case "sat":
				s.stats.Sat++
				return r2, m2
			case "unsat":
				s.stats.Unsat++
				return r2, nil
			}
			s.stats.Unknown++
			return "unknown", nil
		}
		s.stats.Unknown++
	default:
		// (error ...) or anything unexpected: inconclusive; restart the solver
		s.stats.Errors++
		msg := res
		s.close()
		s.start()
		s.inPath = false
		panic(engineError{"solver error: " + msg})
	}
	if res == "sat" && wantModel {
		model = Model{}
		if len(s.declOrder) > 0 {
			var sb strings.Builder
			sb.WriteString("(get-value (")
			for _, n := range s.declOrder {
				sb.WriteString(n)
				sb.WriteString(" ")
			}
			sb.WriteString("))\n")
			s.send(sb.String())
			txt := s.readSexp()
			if strings.Contains(txt, "(error") {
				s.stats.Errors++
				panic(engineError{"solver get-value error: " + txt})
			}
			parseValues(txt, model)
		}
	}
	if extra != nil {
		s.send("(pop 1)\n")
	}
	return res, model
}

func parseValues(txt string, m Model) {
	// ((name #x00ff) (name2 true) ...)
	toks := strings.FieldsFunc(txt, func(r rune) bool { return r == '(' || r == ')' || r == ' ' || r == '\n' || r == '\t' || r == '\r' })
	for i := 0; i+1 < len(toks); i += 2 {
		name, val := toks[i], toks[i+1]
		var v uint64
		switch {
		case val == "true":
			v = 1
		case val == "false":
			v = 0
		case strings.HasPrefix(val, "#x"):
			v, _ = strconv.ParseUint(val[2:], 16, 64)
		case strings.HasPrefix(val, "#b"):
			v, _ = strconv.ParseUint(val[2:], 2, 64)
		case val == "_": // (_ bv123 64)
			if i+3 < len(toks) && strings.HasPrefix(toks[i+2], "bv") {
				v, _ = strconv.ParseUint(toks[i+2][2:], 10, 64)
				i += 2
			}
		}
		m[name] = v
	}
}

// runFallback re-decides the current query from scratch in another solver (one-shot process).
func (s *Solver) runFallback(extra *Term, wantModel bool) (string, Model) {
	var sb strings.Builder
	sb.WriteString(s.pathLog.String())
	if extra != nil {
		fmt.Fprintf(&sb, "(assert %s)\n", extra.leafName())
	}
	sb.WriteString("(check-sat)\n")
	if wantModel && len(s.declOrder) > 0 {
		sb.WriteString("(get-value (")
		for _, n := range s.declOrder {
			sb.WriteString(n)
			sb.WriteString(" ")
		}
		sb.WriteString("))\n")
	}
	cmd := exec.Command(s.fallback[0], s.fallback[1:]...)
	cmd.Stdin = strings.NewReader(sb.String())
	t0 := time.Now()
	out, _ := cmd.Output()
	s.stats.Seconds += time.Since(t0).Seconds()
	txt := string(out)
	if strings.Contains(txt, "(error") && !strings.HasPrefix(strings.TrimSpace(txt), "unsat") {
		return "unknown", nil
	}
	lines := strings.SplitN(strings.TrimSpace(txt), "\n", 2)
	switch strings.TrimSpace(lines[0]) {
	case "unsat":
		return "unsat", nil
	case "sat":
		m := Model{}
		if len(lines) > 1 {
			parseValues(lines[1], m)
		}
		return "sat", m
	}
	return "unknown", nil
}

type engineError struct{ msg string }

func (e engineError) Error() string { return e.msg }
