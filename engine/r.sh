#!/bin/bash
# usage: r.sh <Harness> <bounds> [extra flags]
H=$1; B=$2; shift 2
cd /verif/engine && timeout 1100 ./symex -overlay /verif/harness/mast= -workers 16 -out /tmp/o.json -harness $H -bounds $B "$@" && python3 /tmp/show.py /tmp/o.json 6 | cut -c1-700 | head -8
