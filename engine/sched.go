package main

// Goroutines are real Go goroutines that pass a baton: exactly one runs at a
// time, and control changes hands only at synchronisation operations. Which
// enabled goroutine proceeds at such a point is a decision of the explorer
// (when schedule exploration is on) or fixed by a deterministic policy.
//
// Happens-before tracking (vector clocks) gives a data-race detector over heap
// cells when cfg.Race is set.

import (
	"fmt"
	"go/types"
	"sync"

	"golang.org/x/tools/go/ssa"
)

type vclock []int

func (v vclock) clone() vclock { return append(vclock(nil), v...) }
func (v *vclock) join(o vclock) {
	for len(*v) < len(o) {
		*v = append(*v, 0)
	}
	for i, x := range o {
		if x > (*v)[i] {
			(*v)[i] = x
		}
	}
}
func (v vclock) at(i int) int {
	if i < len(v) {
		return v[i]
	}
	return 0
}

type goroutine struct {
	id      int
	resume  chan struct{}
	blocked func() bool
	done    bool
	vc      vclock
	what    string
}

type waiter struct {
	g    *goroutine
	val  value
	done bool
}

type chanV struct {
	id     int
	cap    int
	buf    []value
	bufVC  []vclock
	closed bool
	recvq  []*waiter
	sendq  []*waiter
	vc     vclock
}

type mutexState struct {
	locked bool
	vc     vclock
}
type wgState struct {
	n  int64
	vc vclock
}
type onceState struct {
	done bool
	vc   vclock
}

type accessRec struct {
	g     int
	clock int
	pos   string
}
type cellInfo struct {
	lastWrite *accessRec
	reads     []accessRec
}

type schedState struct {
	gs          []*goroutine
	wg          sync.WaitGroup
	mutexes     map[*value]*mutexState
	syncMaps    map[*value]*mapV // sync.Map contents, by receiver
	wgs         map[*value]*wgState
	onces       map[*value]*onceState
	cells       map[*value]*cellInfo
	nchan       int
	preemptions int
	switches    int
}

func (in *Interp) initSched() {
	in.sched = &schedState{
		mutexes: map[*value]*mutexState{}, syncMaps: map[*value]*mapV{}, wgs: map[*value]*wgState{}, onces: map[*value]*onceState{},
		cells: map[*value]*cellInfo{},
	}
	g0 := &goroutine{id: 0, resume: make(chan struct{}, 1), vc: vclock{1}, what: "main"}
	in.sched.gs = []*goroutine{g0}
	in.cur = g0
}

func (g *goroutine) enabled() bool {
	if g.done {
		return false
	}
	return g.blocked == nil || g.blocked()
}

func (in *Interp) tick(g *goroutine) {
	for len(g.vc) <= g.id {
		g.vc = append(g.vc, 0)
	}
	g.vc[g.id]++
}

// pickNext chooses the goroutine to run. cur may be nil/blocked/done.
func (in *Interp) pickNext(kind string) *goroutine {
	s := in.sched
	var en []*goroutine
	for _, g := range s.gs {
		if g.enabled() {
			en = append(en, g)
		}
	}
	if len(en) == 0 {
		return nil
	}
	curEnabled := in.cur != nil && in.cur.enabled()
	if len(en) == 1 {
		return en[0]
	}
	if in.cfg.SchedExplore && in.schedOn {
		// context bounding: switching away from an enabled current goroutine costs a preemption
		cands := en
		if curEnabled && s.preemptions >= in.cfg.MaxPreempt {
			return in.cur
		}
		ids := make([]uint64, len(cands))
		for i, g := range cands {
			ids[i] = uint64(g.id)
		}
		// put the current goroutine first so that the default path has no preemption
		if curEnabled {
			for i, g := range cands {
				if g == in.cur {
					ids[0], ids[i] = ids[i], ids[0]
				}
			}
		}
		id := in.chooseAmong("sched:"+kind, ids)
		for _, g := range cands {
			if uint64(g.id) == id {
				if curEnabled && g != in.cur {
					s.preemptions++
				}
				return g
			}
		}
		panic("sched: chosen goroutine not enabled")
	}
	switch in.cfg.SchedPolicy {
	case "last":
		if curEnabled {
			return in.cur
		}
		return en[len(en)-1]
	case "rr":
		// rotate: the first enabled goroutine after the current one
		if in.cur != nil {
			for _, g := range en {
				if g.id > in.cur.id {
					return g
				}
			}
		}
		return en[0]
	default: // "first": keep running; else lowest id
		if curEnabled {
			return in.cur
		}
		return en[0]
	}
}

func (in *Interp) switchTo(g *goroutine) {
	me := in.cur
	if g == me {
		return
	}
	in.sched.switches++
	in.cur = g
	g.resume <- struct{}{}
	if me != nil && !me.done {
		<-me.resume
		if in.dead {
			panic(pathAbort{"dead"})
		}
	}
}

// yield is a scheduling point placed before a synchronisation operation.
func (in *Interp) yield(kind string) {
	if in.skipYield {
		// the communication of a select case: the scheduling point was the select itself
		in.skipYield = false
		return
	}
	if len(in.sched.gs) == 1 {
		return
	}
	g := in.pickNext(kind)
	if g == nil {
		panic(pathAbort{"deadlock"})
	}
	in.switchTo(g)
}

// block suspends the current goroutine until pred holds.
func (in *Interp) block(kind string, pred func() bool) {
	me := in.cur
	for !pred() {
		me.blocked = pred
		g := in.pickNext(kind)
		if g == nil {
			in.deadlock = true
			panic(pathAbort{"deadlock"})
		}
		in.switchTo(g)
		me.blocked = nil
	}
}

func (in *Interp) spawnGoroutine(fr *frame, instr *ssa.Go, fn value, args []value) {
	s := in.sched
	if len(s.gs) >= in.cfg.MaxGoroutines {
		panic(pathAbort{"goroutine-limit"})
	}
	parent := in.cur
	g := &goroutine{id: len(s.gs), resume: make(chan struct{}, 1), what: fmt.Sprint(fn)}
	g.vc = parent.vc.clone()
	for len(g.vc) <= g.id {
		g.vc = append(g.vc, 0)
	}
	g.vc[g.id] = 1
	in.tick(parent) // accesses after the go statement are not ordered before the child
	s.gs = append(s.gs, g)
	s.wg.Add(1)
	go func() {
		defer s.wg.Done()
		<-g.resume
		if in.dead {
			return
		}
		defer func() {
			r := recover()
			g.done = true
			if r != nil {
				if pa, ok := r.(pathAbort); ok && pa.reason == "dead" {
					return
				}
				// a panic in a goroutine kills the program: record and stop the path
				if in.fatal == nil {
					in.fatal = r
				}
				in.killFrom(g)
				return
			}
			// normal exit: hand the baton on
			in.tick(g)
			next := in.pickNext("exit")
			if next == nil {
				in.deadlock = true
				if in.fatal == nil {
					in.fatal = pathAbort{"deadlock"}
				}
				in.killFrom(g)
				return
			}
			in.cur = next
			next.resume <- struct{}{}
		}()
		in.call(nil, instr.Pos(), fn, args)
	}()
}

// killFrom is called by a goroutine that cannot continue the path: it wakes the
// main goroutine, which aborts the path.
func (in *Interp) killFrom(g *goroutine) {
	in.dead = true
	main := in.sched.gs[0]
	if g != main {
		in.cur = main
		main.resume <- struct{}{}
	}
}

// reap wakes every parked goroutine after the path has ended and waits for them.
func (in *Interp) reap() {
	in.dead = true
	for _, g := range in.sched.gs[1:] {
		if !g.done {
			select {
			case g.resume <- struct{}{}:
			default:
			}
		}
	}
	in.sched.wg.Wait()
}

// ---- channels ----

func (in *Interp) newChan(n int) *chanV {
	in.sched.nchan++
	return &chanV{id: in.sched.nchan, cap: n}
}

func (in *Interp) chanSend(fr *frame, ch *chanV, v value) {
	in.yield("send")
	if ch == nil {
		in.block("send-nil", func() bool { return false })
	}
	if ch.closed {
		in.targetPanicStr("send on closed channel")
	}
	me := in.cur
	if len(ch.recvq) > 0 {
		w := ch.recvq[0]
		ch.recvq = ch.recvq[1:]
		w.val = copyVal(v)
		w.done = true
		// rendezvous: both sides learn each other's past
		w.g.vc.join(me.vc)
		me.vc.join(w.g.vc)
		in.tick(me)
		in.tick(w.g)
		return
	}
	if len(ch.buf) < ch.cap {
		ch.buf = append(ch.buf, copyVal(v))
		ch.bufVC = append(ch.bufVC, me.vc.clone())
		in.tick(me)
		return
	}
	w := &waiter{g: me, val: copyVal(v)}
	ch.sendq = append(ch.sendq, w)
	in.block("send", func() bool { return w.done || ch.closed })
	if !w.done {
		in.targetPanicStr("send on closed channel")
	}
	in.tick(me)
}

func (in *Interp) chanRecv(fr *frame, ch *chanV, commaOk bool, elemT types.Type) value {
	in.yield("recv")
	if ch == nil {
		in.block("recv-nil", func() bool { return false })
	}
	me := in.cur
	var v value
	ok := true
	switch {
	case len(ch.buf) > 0:
		v = ch.buf[0]
		me.vc.join(ch.bufVC[0])
		ch.buf = ch.buf[1:]
		ch.bufVC = ch.bufVC[1:]
		if len(ch.sendq) > 0 {
			w := ch.sendq[0]
			ch.sendq = ch.sendq[1:]
			ch.buf = append(ch.buf, w.val)
			ch.bufVC = append(ch.bufVC, w.g.vc.clone())
			w.done = true
		}
	case len(ch.sendq) > 0:
		w := ch.sendq[0]
		ch.sendq = ch.sendq[1:]
		v = w.val
		w.done = true
		me.vc.join(w.g.vc)
		w.g.vc.join(me.vc)
		in.tick(me)
	case ch.closed:
		me.vc.join(ch.vc)
		v = in.zero(elemT)
		ok = false
	default:
		w := &waiter{g: me}
		ch.recvq = append(ch.recvq, w)
		in.block("recv", func() bool { return w.done || ch.closed })
		if w.done {
			v = w.val
		} else {
			for i, x := range ch.recvq {
				if x == w {
					ch.recvq = append(ch.recvq[:i:i], ch.recvq[i+1:]...)
					break
				}
			}
			me.vc.join(ch.vc)
			v = in.zero(elemT)
			ok = false
		}
	}
	if commaOk {
		return tuple{v, in.tc.Bool(ok)}
	}
	return v
}

func (in *Interp) chanClose(fr *frame, ch *chanV) {
	in.yield("close")
	if ch == nil {
		in.targetPanicStr("close of nil channel")
	}
	if ch.closed {
		in.targetPanicStr("close of closed channel")
	}
	ch.closed = true
	ch.vc = in.cur.vc.clone()
	in.tick(in.cur)
}

// ---- sync intrinsics ----

func (in *Interp) mutexLock(p *value) {
	in.yield("lock")
	s := in.sched
	m := s.mutexes[p]
	if m == nil {
		m = &mutexState{}
		s.mutexes[p] = m
	}
	in.block("lock", func() bool { return !m.locked })
	m.locked = true
	in.cur.vc.join(m.vc)
}

func (in *Interp) mutexUnlock(p *value) {
	s := in.sched
	m := s.mutexes[p]
	if m == nil || !m.locked {
		in.targetPanicStr("fatal error: sync: unlock of unlocked mutex")
	}
	m.vc = in.cur.vc.clone()
	m.locked = false
	in.tick(in.cur)
}

func (in *Interp) wgOf(p *value) *wgState {
	w := in.sched.wgs[p]
	if w == nil {
		w = &wgState{}
		in.sched.wgs[p] = w
	}
	return w
}

func (in *Interp) wgAdd(p *value, d int64) {
	w := in.wgOf(p)
	if d < 0 {
		in.yield("wg-done")
	}
	w.n += d
	if w.n < 0 {
		in.targetPanicStr("sync: negative WaitGroup counter")
	}
	if d < 0 {
		w.vc.join(in.cur.vc)
		in.tick(in.cur)
	}
}

func (in *Interp) wgWait(p *value) {
	in.yield("wg-wait")
	w := in.wgOf(p)
	in.block("wg-wait", func() bool { return w.n == 0 })
	in.cur.vc.join(w.vc)
}

// ---- happens-before race detection over heap cells ----

func (in *Interp) noteAlloc(fr *frame, p *value)          {}
func (in *Interp) noteAllocSlice(fr *frame, s []value)    {}

func (in *Interp) noteAccess(fr *frame, p *value, write bool, instr ssa.Instruction) {
	if !in.cfg.Race || len(in.sched.gs) == 1 {
		return
	}
	g := in.cur
	ci := in.sched.cells[p]
	if ci == nil {
		ci = &cellInfo{}
		in.sched.cells[p] = ci
	}
	pos := ""
	if instr != nil && fr != nil {
		pos = fr.fn.String() + " " + in.prog.Fset.Position(instr.Pos()).String()
	} else if fr != nil {
		pos = fr.fn.String()
	}
	hb := func(a *accessRec) bool { return a.g == g.id || g.vc.at(a.g) >= a.clock }
	if ci.lastWrite != nil && !hb(ci.lastWrite) {
		in.reportRace(ci.lastWrite, &accessRec{g.id, g.vc.at(g.id), pos}, true, write)
	}
	if write {
		for i := range ci.reads {
			if !hb(&ci.reads[i]) {
				in.reportRace(&ci.reads[i], &accessRec{g.id, g.vc.at(g.id), pos}, false, true)
			}
		}
		ci.lastWrite = &accessRec{g.id, g.vc.at(g.id), pos}
		ci.reads = ci.reads[:0]
	} else {
		// keep one read per goroutine
		for i := range ci.reads {
			if ci.reads[i].g == g.id {
				ci.reads[i] = accessRec{g.id, g.vc.at(g.id), pos}
				return
			}
		}
		ci.reads = append(ci.reads, accessRec{g.id, g.vc.at(g.id), pos})
	}
}

func (in *Interp) reportRace(a, b *accessRec, aWrite, bWrite bool) {
	k := func(w bool) string {
		if w {
			return "write"
		}
		return "read"
	}
	msg := fmt.Sprintf("%s by g%d at %s || %s by g%d at %s", k(aWrite), a.g, a.pos, k(bWrite), b.g, b.pos)
	for _, r := range in.races {
		if r == msg {
			return
		}
	}
	in.races = append(in.races, msg)
}

// ---- select ----

// chanSelect executes an ssa.Select: the select statement is one scheduling point; the cases that can
// proceed are determined, one of them is chosen (a decision when there are several, as the Go runtime
// picks pseudo-randomly), and its communication is performed without a further scheduling point. Without
// a ready case a non-blocking select takes its default branch (index -1) and a blocking one waits.
func (in *Interp) chanSelect(fr *frame, instr *ssa.Select) value {
	in.yield("select")
	type st struct {
		ch   *chanV
		send bool
		val  value
		elem types.Type
	}
	var states []st
	for _, s := range instr.States {
		ch, _ := fr.get(s.Chan).(*chanV)
		x := st{ch: ch, send: s.Dir == types.SendOnly, elem: s.Chan.Type().Underlying().(*types.Chan).Elem()}
		if x.send {
			x.val = fr.get(s.Send)
		}
		states = append(states, x)
	}
	ready := func() []int {
		var r []int
		for i, x := range states {
			if x.ch == nil {
				continue
			}
			if x.send {
				if x.ch.closed || len(x.ch.recvq) > 0 || len(x.ch.buf) < x.ch.cap {
					r = append(r, i)
				}
			} else if x.ch.closed || len(x.ch.buf) > 0 || len(x.ch.sendq) > 0 {
				r = append(r, i)
			}
		}
		return r
	}
	r := ready()
	if len(r) == 0 && instr.Blocking {
		in.block("select", func() bool { return len(ready()) > 0 })
		r = ready()
	}
	// result tuple: (index, recvOk, one value per receive state)
	res := tuple{in.tc.Const(64, ^uint64(0)), in.tc.Bool(false)}
	for _, x := range states {
		if !x.send {
			res = append(res, in.zero(x.elem))
		}
	}
	if len(r) == 0 {
		return res
	}
	pick := r[0]
	if len(r) > 1 {
		ids := make([]uint64, len(r))
		for i, x := range r {
			ids[i] = uint64(x)
		}
		pick = int(in.decide("select", ids, nil))
	}
	res[0] = in.tc.Const(64, uint64(pick))
	x := states[pick]
	in.skipYield = true
	if x.send {
		in.chanSend(fr, x.ch, x.val)
		in.skipYield = false
		return res
	}
	t := in.chanRecv(fr, x.ch, true, x.elem).(tuple)
	in.skipYield = false
	res[1] = t[1]
	slot := 2
	for i, y := range states {
		if y.send {
			continue
		}
		if i == pick {
			res[slot] = t[0]
		}
		slot++
	}
	return res
}
