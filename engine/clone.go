package main

// Package initialisation is concrete and identical on every path, so each
// worker runs it once and every path starts from a deep copy of the resulting
// globals (pointer identity and aliasing preserved, constants re-interned in
// the path's own term context).

import (
	"fmt"

	"golang.org/x/tools/go/ssa"
)

type cloner struct {
	in    *Interp
	tmpl  *Interp
	tc    *TermCtx
	ptrs  map[*value]*value
	elems map[*value][]value // first element of a backing array -> cloned full array
}

func (c *cloner) val(v value) value {
	switch v := v.(type) {
	case nil:
		return nil
	case *Term:
		if v.op != opConst {
			panic(engineError{"init produced a symbolic value"})
		}
		return c.tc.Const(v.w, v.c)
	case Str:
		b := make([]*Term, len(v.b))
		for i, t := range v.b {
			b[i] = c.tc.Const(8, t.cv())
		}
		return Str{b}
	case float64, rtype, bad:
		return v
	case *value:
		return c.ptr(v)
	case structure:
		o := make(structure, len(v))
		for i := range v {
			o[i] = c.val(v[i])
		}
		return o
	case array:
		o := make(array, len(v))
		for i := range v {
			o[i] = c.val(v[i])
		}
		return o
	case tuple:
		o := make(tuple, len(v))
		for i := range v {
			o[i] = c.val(v[i])
		}
		return o
	case []value:
		if v == nil {
			return v
		}
		full := v[:cap(v)]
		if len(full) == 0 {
			return make([]value, 0)
		}
		key := &full[0]
		arr, ok := c.elems[key]
		if !ok {
			arr = make([]value, len(full))
			c.elems[key] = arr
			for i := range full {
				c.ptrs[&full[i]] = &arr[i]
			}
			for i := range full {
				arr[i] = c.val(full[i])
			}
		}
		return arr[:len(v):cap(v)]
	case iface:
		return iface{t: v.t, v: c.val(v.v)}
	case *closure:
		if v == nil {
			return v
		}
		env := make([]value, len(v.Env))
		for i := range v.Env {
			env[i] = c.val(v.Env[i])
		}
		return &closure{Fn: v.Fn, Env: env}
	case *ssa.Function, *ssa.Builtin:
		return v
	case *mapV:
		if v == nil {
			return v
		}
		o := &mapV{keyT: v.keyT}
		for i := range v.keys {
			o.keys = append(o.keys, c.val(v.keys[i]))
			o.vals = append(o.vals, c.val(v.vals[i]))
		}
		return o
	case *chanV:
		if v == nil {
			return v
		}
		panic(engineError{"init produced a channel"})
	case rvalueA:
		return v
	}
	panic(engineError{fmt.Sprintf("clone: unhandled %T", v)})
}

func (c *cloner) ptr(p *value) *value {
	if p == nil {
		return p
	}
	if q, ok := c.ptrs[p]; ok {
		return q
	}
	q := new(value)
	c.ptrs[p] = q
	if st, ok := c.tmpl.sched.onces[p]; ok {
		c.in.sched.onces[q] = &onceState{done: st.done}
	}
	// arrays: register element addresses so that pointers into the array stay aliased
	if a, ok := (*p).(array); ok {
		o := make(array, len(a))
		*q = o
		for i := range a {
			c.ptrs[&a[i]] = &o[i]
		}
		for i := range a {
			o[i] = c.val(a[i])
		}
		return q
	}
	if s, ok := (*p).(structure); ok {
		o := make(structure, len(s))
		*q = o
		for i := range s {
			c.ptrs[&s[i]] = &o[i]
		}
		for i := range s {
			o[i] = c.val(s[i])
		}
		return q
	}
	*q = c.val(*p)
	return q
}

func (in *Interp) cloneInitFrom(t *Interp) {
	in.cl = &cloner{in: in, tmpl: t, tc: in.tc, ptrs: map[*value]*value{}, elems: map[*value][]value{}}
}

// globalAddr returns the address of a global, cloning it from the worker's
// post-init template on first use.
func (in *Interp) globalAddr(g *ssa.Global) *value {
	if r, ok := in.globals[g]; ok {
		return r
	}
	if in.cl != nil {
		if p, ok := in.cl.tmpl.globals[g]; ok {
			q := in.cl.ptr(p)
			in.globals[g] = q
			return q
		}
	}
	z := in.zero(deref(g.Type()))
	p := &z
	in.globals[g] = p
	return p
}
