package main

import (
	"encoding/json"
	"flag"
	"fmt"
	"go/types"
	"os"
	"path/filepath"
	"runtime/debug"
	"runtime/pprof"
	"strconv"
	"strings"

	"golang.org/x/tools/go/packages"
	"golang.org/x/tools/go/ssa"
	"golang.org/x/tools/go/ssa/ssautil"
)

func loadEngine(repo string, pkgPatterns []string, overlayDirs []string) *Engine {
	overlay := map[string][]byte{}
	for _, od := range overlayDirs {
		// od = <srcdir>=<repo-relative target dir>
		parts := strings.SplitN(od, "=", 2)
		src, dst := parts[0], ""
		if len(parts) == 2 {
			dst = parts[1]
		}
		files, _ := filepath.Glob(filepath.Join(src, "*.go"))
		for _, f := range files {
			base := filepath.Base(f)
			if strings.HasSuffix(base, "_native.go") || strings.HasSuffix(base, "_test.go") {
				continue
			}
			b, err := os.ReadFile(f)
			if err != nil {
				panic(err)
			}
			overlay[filepath.Join(repo, dst, "zz_verif_"+base)] = b
		}
	}
	cfg := &packages.Config{
		Mode:    packages.LoadAllSyntax,
		Dir:     repo,
		Overlay: overlay,
		Env:     append(os.Environ(), "GOFLAGS=-mod=mod", "GOPROXY=off", "GOSUMDB=off", "GOTOOLCHAIN=local"),
	}
	pkgs, err := packages.Load(cfg, pkgPatterns...)
	if err != nil {
		fmt.Fprintln(os.Stderr, "load:", err)
		os.Exit(3)
	}
	if packages.PrintErrors(pkgs) > 0 {
		os.Exit(3)
	}
	prog, spkgs := ssautil.AllPackages(pkgs, ssa.InstantiateGenerics)
	prog.Build()
	e := &Engine{prog: prog, pkgs: map[string]*ssa.Package{}}
	for _, p := range spkgs {
		if p != nil {
			e.pkgs[p.Pkg.Path()] = p
		}
	}
	e.sizes = types.SizesFor("gc", "amd64")
	return e
}

type multiFlag []string

func (m *multiFlag) String() string     { return strings.Join(*m, ",") }
func (m *multiFlag) Set(s string) error { *m = append(*m, s); return nil }

func main() {
	var overlays multiFlag
	repo := flag.String("repo", "/repo", "repository root")
	pkgs := flag.String("pkgs", ".", "comma separated package patterns")
	flag.Var(&overlays, "overlay", "harness dir=repo-relative package dir")
	harness := flag.String("harness", "", "harness function")
	bounds := flag.String("bounds", "", "K=3,N=4,...")
	workers := flag.Int("workers", 16, "workers")
	maxPaths := flag.Int64("max-paths", 0, "path budget (0 = none)")
	maxSec := flag.Float64("max-seconds", 0, "time budget")
	maxSteps := flag.Int64("max-steps", 5_000_000, "instruction budget per path")
	timeout := flag.Int("timeout-ms", 10000, "per query timeout")
	solver := flag.String("solver", "z3 -in", "solver command")
	fallback := flag.String("fallback", "z3-new -in -T:120", "one-shot solver used when the main solver answers unknown (empty = none)")
	crossEvery := flag.Int("cross-every", 0, "re-decide every query of every n-th path (per worker) with the cross solvers (0 = off)")
	cross := flag.String("cross", "z3-new -in -t:20000;cvc5 --incremental --lang=smt2 --tlimit-per=20000", "cross solvers, ';' separated")
	sched := flag.Bool("sched", false, "explore schedules")
	policy := flag.String("policy", "first", "deterministic scheduling policy: first|last|rr")
	preempt := flag.Int("preempt", 2, "preemption bound")
	race := flag.Bool("race", false, "happens-before race detection")
	out := flag.String("out", "", "summary json")
	open := flag.String("open-classes", "", "comma separated known-finding classes that are open")
	own := flag.String("own", "", "comma separated assertion label prefixes owned by the property under check (empty = all)")
	prefix := flag.String("prefix", "", "run a single path with this decision prefix (comma separated)")
	sampleEvery := flag.Int("sample-every", 0, "keep the replay vector of every n-th path")
	trace := flag.Bool("trace", false, "trace")
	concBound := flag.Int("conc-bound", 64, "max values enumerated when a symbolic index/length is concretised")
	bsites := flag.Bool("branch-sites", false, "label branch queries by source position")
	cpuprof := flag.String("cpuprofile", "", "write cpu profile")
	flag.Parse()
	if *cpuprof != "" {
		f, _ := os.Create(*cpuprof)
		pprof.StartCPUProfile(f)
		defer pprof.StopCPUProfile()
	}

	debug.SetGCPercent(400)
	eng := loadEngine(*repo, strings.Split(*pkgs, ","), overlays)
	cfg := &Config{Harness: *harness, Bounds: map[string]int64{}, MaxSteps: *maxSteps, MaxDepth: 400, MaxGoroutines: 512,
		MaxPaths: *maxPaths, MaxSeconds: *maxSec, Workers: *workers, SolverArgv: strings.Fields(*solver), FallbackArgv: strings.Fields(*fallback), TimeoutMs: *timeout,
		SchedExplore: *sched, SchedPolicy: *policy, MaxPreempt: *preempt, Race: *race, ConcBound: *concBound, trackFns: true, Trace: *trace,
		OpenClasses: map[string]bool{}, SampleEvery: *sampleEvery, BranchSites: *bsites}
	cfg.CrossEvery = *crossEvery
	for _, c := range strings.Split(*cross, ";") {
		if f := strings.Fields(c); len(f) > 0 {
			cfg.CrossArgv = append(cfg.CrossArgv, f)
		}
	}
	for _, kv := range strings.Split(*bounds, ",") {
		if kv == "" {
			continue
		}
		p := strings.SplitN(kv, "=", 2)
		v, err := strconv.ParseInt(p[1], 10, 64)
		if err != nil {
			panic(err)
		}
		cfg.Bounds[p[0]] = v
	}
	for _, o := range strings.Split(*own, ",") {
		if o != "" {
			cfg.Own = append(cfg.Own, o)
		}
	}
	for _, c := range strings.Split(*open, ",") {
		if c != "" {
			cfg.OpenClasses[c] = true
		}
	}
	var sum *Summary
	if *prefix != "" || flag.NArg() > 0 && flag.Arg(0) == "single" {
		var pre []uint64
		for _, s := range strings.Split(*prefix, ",") {
			if s == "" {
				continue
			}
			v, _ := strconv.ParseUint(s, 10, 64)
			pre = append(pre, v)
		}
		w := &worker{eng: eng, cfg: cfg}
		w.sol = newSolver(cfg.SolverArgv, cfg.TimeoutMs)
		if *trace {
			w.sol.dump = os.Stderr
		}
		res := w.runPath(workItem{prefix: pre})
		b, _ := json.MarshalIndent(map[string]interface{}{"outcome": res.Outcome, "msg": res.Msg, "findings": res.Findings,
			"trail": res.Trail, "incomplete": res.Incomplete, "vector": res.Vector, "spawned": len(res.Spawned)}, "", " ")
		fmt.Println(string(b))
		return
	}
	sum = explore(eng, cfg)
	// keep only in-scope functions in the report
	sum.Functions = trimFns(sum.Functions, func(f string) bool {
		return strings.Contains(f, "jrhy/mast") && !strings.Contains(f, "verif") && !strings.Contains(f, "Harness")
	})
	b, _ := json.MarshalIndent(sum, "", " ")
	if *out != "" {
		os.WriteFile(*out, b, 0644)
	} else {
		fmt.Println(string(b))
	}
	fmt.Fprintf(os.Stderr, "%s %v: paths=%d ok=%d outcomes=%v findings=%d incomplete=%d queries=%d solver=%.1fs wall=%.1fs\n",
		cfg.Harness, cfg.Bounds, sum.Paths, sum.PathsOK, sum.Outcomes, len(sum.Findings), len(sum.Incomplete), sum.Solver.Queries, sum.Solver.Seconds, sum.WallS)
}
