package main

import (
	"fmt"
	"os"
	"runtime/debug"
	"sort"
	"strings"
	"sync"
	"time"

	"golang.org/x/tools/go/ssa"
)

type Config struct {
	Harness       string
	Bounds        map[string]int64
	MaxSteps      int64
	MaxDepth      int
	MaxGoroutines int
	MaxPaths      int64
	MaxSeconds    float64
	Workers       int
	SolverArgv    []string
	FallbackArgv  []string
	CrossEvery    int
	CrossArgv     [][]string
	TimeoutMs     int
	SchedExplore  bool
	SchedPolicy   string
	MaxPreempt    int
	Race          bool
	ConcBound     int
	trackFns      bool
	Trace         bool
	OpenClasses   map[string]bool // known-finding classes that are open (label -> true)
	SampleEvery   int
	BranchSites   bool
	Own           []string // label prefixes owned by the property being checked (empty = all)
}

type workItem struct {
	prefix []uint64
	model  Model
}

type nondetRec struct {
	Name string
	W    int
	t    *Term
}

type event struct {
	Kind  string // assert | observe | class
	Label string
	t     *Term
	Val   uint64
}

type Finding struct {
	Kind     string            `json:"kind"` // violation | known | panic | race | deadlock
	Label    string            `json:"label"`
	Class    string            `json:"class,omitempty"`
	Msg      string            `json:"msg,omitempty"`
	Prefix   []uint64          `json:"prefix"`
	Vector   *ReplayVector     `json:"vector,omitempty"`
	Harness  string            `json:"harness"`
	Bounds   map[string]int64  `json:"bounds"`
	Extra    map[string]string `json:"extra,omitempty"`
	// further counterexamples of the same kind/label/class (tried natively when the first one
	// cannot be replayed, e.g. a crash point the native file system cannot be stopped at)
	Alternates []*ReplayVector `json:"alternates,omitempty"`
}

type ReplayVector struct {
	Harness string            `json:"harness"`
	Bounds  map[string]int64  `json:"bounds"`
	Nondet  []uint64          `json:"nondet"`
	Names   []string          `json:"names"`
	Layers  [][2]uint64       `json:"layers"`
	Sched   []uint64          `json:"sched,omitempty"`
	Expect  []string          `json:"expect,omitempty"` // predicted event trace
	Own     []string          `json:"own,omitempty"`    // assertion label prefixes that stop the native run when they fail
}

func (c *Config) owns(label string) bool {
	if len(c.Own) == 0 {
		return true
	}
	for _, p := range c.Own {
		if strings.HasPrefix(label, p) {
			return true
		}
	}
	return false
}

type classCond struct {
	name string
	cond *Term
}

type Interp struct {
	eng     *Engine
	prog    *ssa.Program
	cfg     *Config
	tc      *TermCtx
	sol     *Solver
	globals map[*ssa.Global]*value

	pcAll     []*Term
	pcSent    int
	model     Model
	modelMemo map[int]uint64

	prefix  []uint64
	pos     int
	trail   []uint64
	spawned []workItem

	nondets   []nondetRec
	layerTab  []layerEnt
	events    []event
	pending   []classCond
	findings  []Finding
	schedOn   bool
	schedLog  []uint64

	steps    int64
	depth    int
	sched    *schedState
	cur      *goroutine
	dead     bool
	fatal    interface{}
	deadlock bool
	skipYield bool
	races    []string

	decisions   int
	incomplete  []string
	unknownHits int
	objIDs      map[*value]int
	fs          *fsModel
	reached     map[string]bool
	onPrefixEnd func()
	known       map[int]bool
	ord         *orderFacts
	constCache  map[*ssa.Const]value
	cl          *cloner
	deferred    []deferredAssert
	inEnd       bool
	inInit      bool
	atPrefixEnd bool
	lastPanic   string
}

// replayNext consumes the next recorded decision; when the prefix is used up
// the model that was found for it becomes the current model.
func (in *Interp) replayNext() uint64 {
	v := in.prefix[in.pos]
	in.pos++
	in.trail = append(in.trail, v)
	if in.pos == len(in.prefix) {
		in.atPrefixEnd = true
	}
	return v
}

// afterReplay must be called once the constraint of the last replayed decision is in the PC.
func (in *Interp) afterReplay() {
	if !in.atPrefixEnd {
		return
	}
	in.atPrefixEnd = false
	if in.onPrefixEnd != nil {
		in.onPrefixEnd()
	}
	if in.model == nil {
		res, m := in.check("prefix-model", nil)
		switch res {
		case "sat":
			in.setModel(m)
		case "unsat":
			panic(pathAbort{"infeasible"})
		default:
			in.unknownHits++
			in.incomplete = append(in.incomplete, "unknown feasibility of a branch (kept, could not be decided)")
			panic(pathAbort{"solver-unknown"})
		}
	}
}

type layerEnt struct {
	id    *Term
	layer *Term
}

// ---- path condition / model ----

func (in *Interp) replaying() bool { return in.pos < len(in.prefix) }

func (in *Interp) addPC(t *Term) {
	if t == nil || t.isTrue() {
		return
	}
	in.pcAll = append(in.pcAll, t)
	in.learn(t, true)
}

// learn records facts implied by a constraint that has entered the PC, so that
// later branch conditions implied by them are decided without a solver call.
func (in *Interp) learn(t *Term, val bool) {
	if in.known == nil {
		in.known = map[int]bool{}
	}
	switch t.op {
	case opConst:
		return
	case opNot:
		in.learn(t.args[0], !val)
		return
	case opAnd:
		if val {
			for _, a := range t.args {
				in.learn(a, true)
			}
			return
		}
	case opOr:
		if !val {
			for _, a := range t.args {
				in.learn(a, false)
			}
			return
		}
	}
	if _, ok := in.known[t.id]; ok {
		return
	}
	in.known[t.id] = val
	if in.ord == nil {
		in.ord = newOrderFacts()
	}
	switch t.op {
	case opBvULt:
		if val {
			in.ord.addLE(t.args[0], t.args[1], true)
		} else {
			in.ord.addLE(t.args[1], t.args[0], false)
		}
	case opBvULe:
		if val {
			in.ord.addLE(t.args[0], t.args[1], false)
		} else {
			in.ord.addLE(t.args[1], t.args[0], true)
		}
	case opEq:
		if t.args[0].w > 0 {
			if val {
				in.ord.addLE(t.args[0], t.args[1], false)
				in.ord.addLE(t.args[1], t.args[0], false)
			} else {
				in.ord.addNE(t.args[0], t.args[1])
			}
		}
	}
	tc := in.tc
	set := func(x *Term, v bool) {
		if x.op == opConst {
			return
		}
		if x.op == opNot {
			x, v = x.args[0], !v
		}
		if _, ok := in.known[x.id]; !ok {
			in.known[x.id] = v
		}
	}
	switch t.op {
	case opBvULt, opBvSLt:
		a, b := t.args[0], t.args[1]
		if val {
			set(tc.Eq(a, b), false)
			set(tc.bin(t.op, b, a), false)
		} else if v, ok := in.known[tc.Eq(a, b).id]; ok && !v {
			set(tc.bin(t.op, b, a), true)
		}
	case opEq:
		a, b := t.args[0], t.args[1]
		if a.w > 0 {
			if val {
				set(tc.bin(opBvULt, a, b), false)
				set(tc.bin(opBvULt, b, a), false)
			} else {
				if v, ok := in.known[tc.bin(opBvULt, a, b).id]; ok && !v {
					set(tc.bin(opBvULt, b, a), true)
				}
				if v, ok := in.known[tc.bin(opBvULt, b, a).id]; ok && !v {
					set(tc.bin(opBvULt, a, b), true)
				}
			}
		}
	}
}

// eval3 evaluates a boolean term under the learnt facts: 1 true, 0 false, -1 unknown.
func (in *Interp) eval3(t *Term) int8 {
	if t.op == opConst {
		return int8(t.c)
	}
	if v, ok := in.known[t.id]; ok {
		if v {
			return 1
		}
		return 0
	}
	if in.ord != nil {
		switch t.op {
		case opBvULt:
			if r := in.ord.lt(t.args[0], t.args[1]); r >= 0 {
				return r
			}
		case opBvULe:
			if r := in.ord.le(t.args[0], t.args[1]); r >= 0 {
				return r
			}
		case opEq:
			if t.args[0].w > 0 {
				if r := in.ord.eq(t.args[0], t.args[1]); r >= 0 {
					return r
				}
			}
		}
	}
	switch t.op {
	case opNot:
		r := in.eval3(t.args[0])
		if r < 0 {
			return -1
		}
		return 1 - r
	case opAnd:
		unk := false
		for _, a := range t.args {
			switch in.eval3(a) {
			case 0:
				return 0
			case -1:
				unk = true
			}
		}
		if unk {
			return -1
		}
		return 1
	case opOr:
		unk := false
		for _, a := range t.args {
			switch in.eval3(a) {
			case 1:
				return 1
			case -1:
				unk = true
			}
		}
		if unk {
			return -1
		}
		return 0
	case opIte:
		if t.w != 0 {
			return -1
		}
		switch in.eval3(t.args[0]) {
		case 1:
			return in.eval3(t.args[1])
		case 0:
			return in.eval3(t.args[2])
		}
		a, b := in.eval3(t.args[1]), in.eval3(t.args[2])
		if a == b {
			return a
		}
		return -1
	}
	return -1
}

func (in *Interp) flushPC() {
	for ; in.pcSent < len(in.pcAll); in.pcSent++ {
		in.sol.assert(in.pcAll[in.pcSent])
	}
}

func (in *Interp) evalModel(t *Term) uint64 {
	if t.isConst() {
		return t.cv()
	}
	if in.modelMemo == nil {
		in.modelMemo = map[int]uint64{}
	}
	return in.model.eval(t, in.modelMemo)
}

func (in *Interp) setModel(m Model) {
	in.model = m
	in.modelMemo = nil
}

// check asks the solver whether PC /\ extra is satisfiable.
func (in *Interp) check(kind string, extra *Term) (string, Model) {
	in.flushPC()
	return in.sol.check(kind, extra, true)
}

// ensureModel re-establishes model |= PC after a constraint was added that
// the current model may not satisfy. Returns false when PC became unsatisfiable.
func (in *Interp) assume(t *Term, kind string) bool {
	if t.isTrue() {
		return true
	}
	if t.isFalse() {
		return false
	}
	in.addPC(t)
	if in.replaying() {
		return true
	}
	if in.model != nil && in.evalModel(t) != 0 {
		return true
	}
	res, m := in.check(kind, nil)
	switch res {
	case "sat":
		in.setModel(m)
		return true
	case "unsat":
		return false
	default:
		in.unknownHits++
		in.incomplete = append(in.incomplete, "unknown on "+kind)
		panic(pathAbort{"solver-unknown"})
	}
}

func (in *Interp) endOfPrefix() {
	// called when the replay prefix has just been consumed
}

// decide explores a decision with the given alternatives. alts[i] is the
// constraint under which alternative vals[i] is taken (nil = unconstrained).
func (in *Interp) decide(kind string, vals []uint64, alts []*Term) uint64 {
	in.decisions++
	if in.replaying() {
		v := in.replayNext()
		for i, x := range vals {
			if x == v {
				if alts != nil {
					in.addPC(alts[i])
				}
				in.afterReplay()
				return v
			}
		}
		panic(engineError{fmt.Sprintf("replay divergence at decision %d (%s): value %d not among %v", in.pos-1, kind, v, vals)})
	}
	cur := -1
	if alts == nil {
		cur = 0
	} else if in.model != nil {
		for i, a := range alts {
			if a == nil || in.evalModel(a) != 0 {
				cur = i
				break
			}
		}
	}
	base := append([]uint64(nil), in.trail...)
	for i := range vals {
		if i == cur {
			continue
		}
		var m Model
		if alts == nil || alts[i] == nil {
			m = in.model
		} else {
			res, mm := in.check(kind, alts[i])
			if res == "unsat" {
				continue
			}
			if res == "unknown" {
				in.unknownHits++
				mm = nil // sibling must re-establish its own model
			}
			m = mm
		}
		if cur == -1 {
			// no alternative known feasible yet: take this one ourselves
			if m == nil {
				continue
			}
			cur = i
			in.setModel(m)
			continue
		}
		p := append(append([]uint64(nil), base...), vals[i])
		in.spawned = append(in.spawned, workItem{prefix: p, model: m})
	}
	if cur == -1 {
		panic(pathAbort{"infeasible"})
	}
	in.pos++
	in.trail = append(in.trail, vals[cur])
	if alts != nil {
		in.addPC(alts[cur])
	}
	return vals[cur]
}

func (in *Interp) decideBool(c *Term, kind string) bool {
	if c.isConst() {
		return c.cv() != 0
	}
	if r := in.eval3(c); r >= 0 {
		return r == 1
	}
	v := in.decide(kind, []uint64{1, 0}, []*Term{c, in.tc.Not(c)})
	return v == 1
}

func (in *Interp) chooseAmong(kind string, ids []uint64) uint64 {
	v := in.decide(kind, ids, nil)
	in.schedLog = append(in.schedLog, v)
	return v
}

// concretize forks over the feasible values of t (at most bound of them are enumerated).
func (in *Interp) concretize(t *Term, kind string, bound uint64) uint64 {
	if t.isConst() {
		return t.cv()
	}
	in.decisions++
	if in.replaying() {
		v := in.replayNext()
		in.addPC(in.tc.Eq(t, in.tc.Const(t.w, v)))
		in.afterReplay()
		return v
	}
	if in.model == nil {
		res, m := in.check(kind, nil)
		if res != "sat" {
			panic(pathAbort{"infeasible"})
		}
		in.setModel(m)
	}
	v0 := in.evalModel(t)
	base := append([]uint64(nil), in.trail...)
	excl := []*Term{in.tc.Not(in.tc.Eq(t, in.tc.Const(t.w, v0)))}
	n := 1
	for {
		if n > in.cfg.ConcBound {
			in.incomplete = append(in.incomplete, fmt.Sprintf("concretisation of %s exceeded %d values", kind, in.cfg.ConcBound))
			break
		}
		res, m := in.check("concretize:"+kind, in.tc.And(excl...))
		if res == "unsat" {
			break
		}
		if res != "sat" {
			in.unknownHits++
			in.incomplete = append(in.incomplete, "unknown while concretising "+kind)
			break
		}
		memo := map[int]uint64{}
		v := m.eval(t, memo)
		p := append(append([]uint64(nil), base...), v)
		in.spawned = append(in.spawned, workItem{prefix: p, model: m})
		excl = append(excl, in.tc.Not(in.tc.Eq(t, in.tc.Const(t.w, v))))
		n++
	}
	in.pos++
	in.trail = append(in.trail, v0)
	in.addPC(in.tc.Eq(t, in.tc.Const(t.w, v0)))
	return v0
}

// ---- assertions ----

func (in *Interp) vector() *ReplayVector {
	rv := &ReplayVector{Harness: in.cfg.Harness, Bounds: in.cfg.Bounds, Own: in.cfg.Own}
	for _, n := range in.nondets {
		rv.Nondet = append(rv.Nondet, in.evalModel(n.t))
		rv.Names = append(rv.Names, n.Name)
	}
	for _, l := range in.layerTab {
		rv.Layers = append(rv.Layers, [2]uint64{in.evalModel(l.id), in.evalModel(l.layer)})
	}
	rv.Sched = append(rv.Sched, in.schedLog...)
	return rv
}

func (in *Interp) vectorUnder(m Model) *ReplayVector {
	save, saveMemo := in.model, in.modelMemo
	in.setModel(m)
	rv := in.vector()
	in.model, in.modelMemo = save, saveMemo
	return rv
}

func (in *Interp) report(kind, label, class, msg string, m Model) {
	f := Finding{Kind: kind, Label: label, Class: class, Msg: msg, Prefix: append([]uint64(nil), in.trail...),
		Harness: in.cfg.Harness, Bounds: in.cfg.Bounds}
	if m != nil {
		f.Vector = in.vectorUnder(m)
		f.Vector.Expect = in.traceUnder(m)
	}
	in.findings = append(in.findings, f)
}

func (in *Interp) traceUnder(m Model) []string {
	memo := map[int]uint64{}
	var out []string
	for _, e := range in.events {
		v := e.Val
		if e.t != nil {
			v = m.eval(e.t, memo)
		}
		out = append(out, fmt.Sprintf("%s:%s=%d", e.Kind, e.Label, v))
	}
	return out
}

// assertCond: property assertion. Symbolic assertions are collected and decided
// together when the path is complete (every input follows exactly one complete
// path, so deciding all assertions of a path under its final path condition
// loses nothing and costs one query per path instead of one per assertion).
// Classes registered by verifClass since the previous assertion partition
// failures into known findings and violations.
type deferredAssert struct {
	label   string
	cond    *Term
	classes []classCond
	evIdx   int
}

func (in *Interp) assertCond(label string, cond *Term) {
	classes := in.pending
	in.pending = nil
	in.reached[label] = true
	in.events = append(in.events, event{Kind: "assert", Label: label, t: cond})
	if cond.isTrue() {
		return
	}
	if r := in.eval3(cond); r == 1 {
		return
	}
	if !in.cfg.owns(label) {
		// an assertion of another property: its failures belong to that property's check; here it
		// is only traced (the native replay does not stop at it either)
		return
	}
	in.deferred = append(in.deferred, deferredAssert{label, cond, classes, len(in.events)})
	if cond.isFalse() {
		// fails for every input that reaches this point: decide now and stop the path
		in.checkDeferred()
		panic(pathAbort{"assert-all-fail"})
	}
}

// checkDeferred decides the collected assertions under the current path condition.
func (in *Interp) checkDeferred() {
	if in.replaying() {
		return
	}
	tc := in.tc
	remaining := in.deferred
	in.deferred = nil
	var hyp []*Term
	for len(remaining) > 0 {
		var negs []*Term
		for _, d := range remaining {
			negs = append(negs, tc.Not(d.cond))
		}
		q := tc.And(append(append([]*Term{}, hyp...), tc.Or(negs...))...)
		if q.isFalse() {
			return
		}
		var res string
		var m Model
		if in.model != nil && in.evalModel(q) != 0 {
			res, m = "sat", in.model
		} else {
			res, m = in.check("assert", q)
		}
		if res == "unsat" {
			return
		}
		if res != "sat" {
			in.unknownHits++
			in.incomplete = append(in.incomplete, "unknown on assertions "+remaining[0].label+"...")
			return
		}
		// first failing assertion (in program order) under this model
		memo := map[int]uint64{}
		idx := -1
		for i, d := range remaining {
			if m.eval(d.cond, memo) == 0 {
				idx = i
				break
			}
		}
		if idx < 0 {
			panic(engineError{"model does not falsify any assertion"})
		}
		d := remaining[idx]
		in.classify(d, hyp, m)
		hyp = append(hyp, d.cond)
		remaining = append(append([]deferredAssert{}, remaining[:idx]...), remaining[idx+1:]...)
	}
}

func (in *Interp) classify(d deferredAssert, hyp []*Term, m Model) {
	tc := in.tc
	fail := tc.And(append(append([]*Term{}, hyp...), tc.Not(d.cond))...)
	if len(d.classes) == 0 {
		in.reportEv("violation", d.label, "", "", m, d.evIdx)
		return
	}
	var notAny []*Term
	for _, c := range d.classes {
		notAny = append(notAny, tc.Not(c.cond))
		q := tc.And(fail, c.cond)
		if q.isFalse() {
			continue
		}
		res, mm := in.check("classify", q)
		if res == "sat" {
			kind := "known"
			if !in.cfg.OpenClasses[c.name] {
				kind = "violation"
			}
			in.reportEv(kind, d.label, c.name, "", mm, d.evIdx)
		} else if res != "unsat" {
			in.unknownHits++
			in.incomplete = append(in.incomplete, "unknown on classification "+d.label+"/"+c.name)
		}
	}
	q := tc.And(append([]*Term{fail}, notAny...)...)
	if q.isFalse() {
		return
	}
	res, mm := in.check("classify", q)
	if res == "sat" {
		in.reportEv("violation", d.label, "", "", mm, d.evIdx)
	} else if res != "unsat" {
		in.unknownHits++
		in.incomplete = append(in.incomplete, "unknown on classification "+d.label)
	}
}

// reportEv records a finding whose predicted trace ends at event evIdx.
func (in *Interp) reportEv(kind, label, class, msg string, m Model, evIdx int) {
	f := Finding{Kind: kind, Label: label, Class: class, Msg: msg, Prefix: append([]uint64(nil), in.trail...),
		Harness: in.cfg.Harness, Bounds: in.cfg.Bounds}
	f.Vector = in.vectorUnder(m)
	save := in.events
	in.events = in.events[:evIdx]
	f.Vector.Expect = in.traceUnder(m)
	in.events = save
	in.findings = append(in.findings, f)
}

func (in *Interp) reportAt(kind, label, class, msg string, m Model) {
	// the failing side corresponds to trail + [0]
	in.trail = append(in.trail, 0)
	in.report(kind, label, class, msg, m)
	in.trail = in.trail[:len(in.trail)-1]
}

// ---- running one path ----

type PathResult struct {
	Outcome    string
	Msg        string
	Findings   []Finding
	Spawned    []workItem
	Decisions  int
	Steps      int64
	Trail      []uint64
	Incomplete []string
	Sample     map[string]interface{}
	Reached    map[string]bool
	Vector     *ReplayVector
	Races      []string
}

func (w *worker) runPath(item workItem) (res PathResult) {
	eng := w.eng
	in := &Interp{eng: eng, prog: eng.prog, cfg: w.cfg, tc: newTermCtx(), sol: w.sol,
		prefix: item.prefix, objIDs: map[*value]int{}, reached: map[string]bool{}, constCache: map[*ssa.Const]value{}}
	in.globals = map[*ssa.Global]*value{}
	in.sol.beginPath()
	in.initSched()
	if len(item.prefix) == 0 {
		in.setModel(Model{})
	} else {
		in.model = nil
	}
	w.cur = in
	itemModel := item.model
	in.onPrefixEnd = func() {
		if itemModel != nil {
			in.setModel(itemModel)
		}
	}
	defer func() {
		r := recover()
		in.reap()
		defer in.sol.endPath()
		if in.fatal != nil && (r == nil || isDead(r)) {
			r = in.fatal
		}
		res.Outcome = "ok"
		switch r := r.(type) {
		case nil:
		case pathAbort:
			res.Outcome = r.reason
			switch r.reason {
			case "infeasible", "assert-all-fail", "assume-false":
			case "deadlock":
				in.report("deadlock", "deadlock", "", "all goroutines blocked", in.model)
			case "step-limit", "depth-limit", "goroutine-limit":
				// the code under test does not terminate within the budget on this path
				in.report("hang", "nontermination", "", r.reason, in.model)
				in.incomplete = append(in.incomplete, "path aborted: "+r.reason)
			default:
				in.incomplete = append(in.incomplete, "path aborted: "+r.reason)
			}
		case targetPanic:
			res.Outcome = "panic"
			res.Msg = in.showPanic(r.v)
			in.report("panic", "uncaught-panic", "", res.Msg, in.model)
		case engineError:
			res.Outcome = "engine-error"
			res.Msg = r.msg
			in.incomplete = append(in.incomplete, "engine: "+r.msg)
		default:
			res.Outcome = "engine-crash"
			res.Msg = fmt.Sprintf("%v\n%s", r, debug.Stack())
			in.incomplete = append(in.incomplete, "engine crash: "+fmt.Sprint(r))
		}
		if in.model != nil && len(in.deferred) > 0 && res.Outcome != "engine-error" && res.Outcome != "engine-crash" && res.Outcome != "solver-unknown" && res.Outcome != "infeasible" && res.Outcome != "assume-false" && res.Outcome != "assert-all-fail" {
			func() {
				defer func() {
					if r := recover(); r != nil {
						in.incomplete = append(in.incomplete, fmt.Sprint("deferred assertion check failed: ", r))
					}
				}()
				in.inEnd = true
				in.checkDeferred()
			}()
		}
		for _, rc := range in.races {
			in.report("race", "data-race", "", rc, in.model)
		}
		res.Findings = in.findings
		res.Spawned = in.spawned
		res.Decisions = in.decisions
		res.Steps = in.steps
		res.Trail = in.trail
		res.Incomplete = in.incomplete
		res.Reached = in.reached
		res.Races = in.races
		if res.Outcome == "ok" && in.model != nil {
			res.Vector = in.vector()
			res.Vector.Expect = in.traceUnder(in.model)
		}
	}()
	if w.tmpl == nil {
		t := &Interp{eng: eng, prog: eng.prog, cfg: w.cfg, tc: newTermCtx(), sol: w.sol,
			objIDs: map[*value]int{}, reached: map[string]bool{}, constCache: map[*ssa.Const]value{}}
		t.globals = map[*ssa.Global]*value{}
		t.initSched()
		t.setModel(Model{})
		t.runInit()
		// warm-up of lazily built std tables so that paths do not rebuild them
		if p := eng.prog.ImportedPackage("hash/crc64"); p != nil {
			if f := p.Func("buildSlicing8TablesOnce"); f != nil {
				t.call(nil, 0, f, nil)
			}
		}
		w.tmpl = t
	}
	in.cloneInitFrom(w.tmpl)
	fn := eng.harnessFn(w.cfg.Harness)
	in.call(nil, 0, fn, nil)
	if in.replaying() {
		panic(engineError{fmt.Sprintf("replay divergence: path ended after %d of %d decisions", in.pos, len(in.prefix))})
	}
	return
}

func isDead(r interface{}) bool {
	pa, ok := r.(pathAbort)
	return ok && pa.reason == "dead"
}

func (in *Interp) showPanic(v value) string {
	if it, ok := v.(iface); ok {
		switch x := it.v.(type) {
		case Str:
			return x.show()
		case *value:
			if x != nil {
				if s, ok := (*x).(structure); ok && len(s) > 0 {
					if m, ok := s[0].(Str); ok {
						return m.show()
					}
				}
			}
		}
		if it.t != nil {
			return "panic of type " + it.t.String()
		}
	}
	return fmt.Sprintf("%T", v)
}

// ---- exploration driver ----

type worker struct {
	id  int
	eng *Engine
	cfg *Config
	sol *Solver
	cur *Interp
	tmpl *Interp
}

type Summary struct {
	Harness       string              `json:"harness"`
	Bounds        map[string]int64    `json:"bounds"`
	Paths         int64               `json:"paths"`
	PathsOK       int64               `json:"paths_ok"`
	Outcomes      map[string]int64    `json:"outcomes"`
	Decisions     int64               `json:"decisions"`
	Steps         int64               `json:"steps"`
	Findings      []Finding           `json:"findings"`
	Incomplete    []string            `json:"incomplete"`
	Exhausted     bool                `json:"exhausted"`
	Solver        SolverStats         `json:"solver"`
	WallS         float64             `json:"wall_s"`
	Reached       map[string]int64    `json:"reached"`
	Samples       []*ReplayVector     `json:"samples"`
	Functions     []string            `json:"functions"`
	Stubs         []string            `json:"stubs"`
	EngineErrors  []string            `json:"engine_errors"`
}

func explore(eng *Engine, cfg *Config) *Summary {
	t0 := time.Now()
	sum := &Summary{Harness: cfg.Harness, Bounds: cfg.Bounds, Outcomes: map[string]int64{}, Reached: map[string]int64{},
		Findings: []Finding{}, Incomplete: []string{}, Samples: []*ReplayVector{}, EngineErrors: []string{}}
	var mu sync.Mutex
	cond := sync.NewCond(&mu)
	stack := []workItem{{}}
	active := 0
	stop := false
	incSeen := map[string]bool{}
	findSeen := map[string]bool{}
	findIdx := map[string]int{}
	var wg sync.WaitGroup
	for i := 0; i < cfg.Workers; i++ {
		wg.Add(1)
		go func(id int) {
			defer wg.Done()
			w := &worker{id: id, eng: eng, cfg: cfg}
			w.sol = newSolver(cfg.SolverArgv, cfg.TimeoutMs)
			w.sol.fallback = cfg.FallbackArgv
			w.sol.crossEvery, w.sol.cross = cfg.CrossEvery, cfg.CrossArgv
			defer func() {
				mu.Lock()
				sum.Solver.add(&w.sol.stats)
				mu.Unlock()
				w.sol.close()
			}()
			for {
				mu.Lock()
				for len(stack) == 0 && active > 0 && !stop {
					cond.Wait()
				}
				if stop || (len(stack) == 0 && active == 0) {
					mu.Unlock()
					cond.Broadcast()
					return
				}
				item := stack[len(stack)-1]
				stack = stack[:len(stack)-1]
				active++
				mu.Unlock()

				res := w.runPath(item)

				mu.Lock()
				active--
				sum.Paths++
				sum.Outcomes[res.Outcome]++
				if res.Outcome == "ok" {
					sum.PathsOK++
				}
				sum.Decisions += int64(res.Decisions)
				sum.Steps += res.Steps
				for l := range res.Reached {
					sum.Reached[l]++
				}
				for _, f := range res.Findings {
					k := f.Kind + "|" + f.Label + "|" + f.Class + "|" + f.Msg
					if !findSeen[k] {
						findSeen[k] = true
						findIdx[k] = len(sum.Findings)
						sum.Findings = append(sum.Findings, f)
					} else if i := findIdx[k]; f.Vector != nil && len(sum.Findings[i].Alternates) < 8 {
						sum.Findings[i].Alternates = append(sum.Findings[i].Alternates, f.Vector)
					}
				}
				for _, s := range res.Incomplete {
					if !incSeen[s] {
						incSeen[s] = true
						sum.Incomplete = append(sum.Incomplete, s)
					}
				}
				if res.Outcome == "engine-error" || res.Outcome == "engine-crash" {
					if len(sum.EngineErrors) < 10 {
						sum.EngineErrors = append(sum.EngineErrors, res.Msg+fmt.Sprintf(" trail=%v", res.Trail))
					}
				}
				if res.Vector != nil && (len(sum.Samples) < 3 || (cfg.SampleEvery > 0 && sum.Paths%int64(cfg.SampleEvery) == 0 && len(sum.Samples) < 400)) {
					sum.Samples = append(sum.Samples, res.Vector)
				}
				stack = append(stack, res.Spawned...)
				if cfg.MaxPaths > 0 && sum.Paths >= cfg.MaxPaths || cfg.MaxSeconds > 0 && time.Since(t0).Seconds() > cfg.MaxSeconds {
					if len(stack) > 0 || active > 0 {
						if !stop {
							sum.Incomplete = append(sum.Incomplete, fmt.Sprintf("budget exhausted with %d prefixes unexplored", len(stack)))
						}
						stop = true
					}
				}
				mu.Unlock()
				cond.Broadcast()
			}
		}(i)
	}
	wg.Wait()
	sum.Exhausted = !stop && len(sum.Incomplete) == 0
	sum.WallS = time.Since(t0).Seconds()
	eng.fnUsed.Range(func(k, _ interface{}) bool {
		sum.Functions = append(sum.Functions, k.(*ssa.Function).String())
		return true
	})
	sort.Strings(sum.Functions)
	eng.stubUsed.Range(func(k, _ interface{}) bool {
		sum.Stubs = append(sum.Stubs, k.(string))
		return true
	})
	sort.Strings(sum.Stubs)
	return sum
}

func (e *Engine) harnessFn(name string) *ssa.Function {
	for _, p := range e.pkgs {
		if f := p.Func(name); f != nil {
			return f
		}
	}
	fmt.Fprintf(os.Stderr, "harness %s not found\n", name)
	os.Exit(3)
	return nil
}

func trimFns(fns []string, keep func(string) bool) []string {
	var out []string
	for _, f := range fns {
		if keep(f) {
			out = append(out, f)
		}
	}
	return out
}

var _ = strings.Contains
