package main

var fsIntrinsics = map[string]intrinsic{}

type fsModel struct{}
