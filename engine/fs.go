package main

// A small POSIX-style file-system model for the persist/file harnesses.
//
//   - files live in one flat namespace keyed by their full path (a Str, possibly with
//     symbolic bytes: lookups fork on equality);
//   - every mutation is a *step*: create/truncate, each byte written, rename, remove;
//     the harness may ask for a crash at step c (verifFSCrashAt) -- the operation in progress
//     stops there, the call never returns (a panic with a recognisable value unwinds to the
//     harness, which then "restarts");
//   - the harness may make the n-th write call fail after k bytes (verifFSWriteError), or the
//     n-th call of a named kind fail outright with a generic error (verifFSFailOp);
//   - os.WriteFile = create/truncate, write, close (not atomic: its documented behaviour);
//     os.Rename is atomic; os.CreateTemp creates a fresh name in the given directory.

import (
	"fmt"
	"go/types"
	"strings"
)

type fsFileEnt struct {
	path    Str
	content []*Term
}

type fsModel struct {
	files                        []*fsFileEnt
	steps                        int
	crashAt                      int // -1 = never
	writeCalls                   int
	werrCall                     int // -1 = none
	werrAfter                    int
	failKind                     string
	failAt                       int // n-th call of failKind fails (0-based); -1 none
	kindCount                    map[string]int
	tmpSeq                       int
	errNotExist, errExist, errIO, errOther iface
	opLog                        []string
}

type fsHandle struct {
	ent    *fsFileEnt
	closed bool
	pos    int  // write offset (handles opened without O_APPEND overwrite from here)
	app    bool // O_APPEND: every write goes to the end
	ro     bool
}

var fsIntrinsics = map[string]intrinsic{}

const crashMsg = "verif: simulated crash"

func (in *Interp) fsm() *fsModel {
	if in.fs == nil {
		f := &fsModel{crashAt: -1, werrCall: -1, failAt: -1, kindCount: map[string]int{}}
		mk := func(msg string) iface {
			var cell value = structure{in.strConst(msg)}
			return iface{t: types.NewPointer(in.eng.namedType("errors", "errorString")), v: &cell}
		}
		f.errNotExist = mk("file does not exist")
		f.errExist = mk("file exists")
		f.errIO = mk("input/output error")
		f.errOther = mk("operation not permitted")
		in.fs = f
	}
	return in.fs
}

func (in *Interp) fsStep(what string) {
	// every file-system mutation is a scheduling point (two goroutines storing the same node)
	in.yield("fs")
	f := in.fsm()
	if f.crashAt >= 0 && f.steps == f.crashAt {
		f.crashAt = -1
		panic(targetPanic{iface{t: types.Typ[types.String], v: in.strConst(crashMsg)}})
	}
	f.steps++
}

// fsFail reports whether this call of the given kind is the one the harness asked to fail.
func (in *Interp) fsFail(kind string) bool {
	f := in.fsm()
	n := f.kindCount[kind]
	f.kindCount[kind] = n + 1
	return f.failKind == kind && f.failAt == n
}

func (in *Interp) fsFind(path Str) *fsFileEnt {
	f := in.fsm()
	for _, e := range f.files {
		eq := in.strEq(e.path, path)
		if eq.isFalse() {
			continue
		}
		if in.decideBool(eq, "fs-path") {
			return e
		}
	}
	return nil
}

func (in *Interp) fsRemove(ent *fsFileEnt) {
	f := in.fsm()
	for i, e := range f.files {
		if e == ent {
			f.files = append(f.files[:i:i], f.files[i+1:]...)
			return
		}
	}
}

func (in *Interp) fsCreate(path Str) *fsFileEnt {
	in.fsStep("create")
	e := in.fsFind(path)
	if e == nil {
		e = &fsFileEnt{path: path}
		in.fsm().files = append(in.fsm().files, e)
	}
	e.content = nil
	return e
}

// fsWrite appends data to ent; returns bytes written and whether an injected error stopped it.
func (in *Interp) fsWrite(ent *fsFileEnt, data []*Term) (int, bool) {
	return in.fsWriteAt(ent, nil, data)
}

// fsWriteAt writes through a handle (nil = append): at the handle's offset, or at the end for O_APPEND.
func (in *Interp) fsWriteAt(ent *fsFileEnt, h *fsHandle, data []*Term) (int, bool) {
	f := in.fsm()
	call := f.writeCalls
	f.writeCalls++
	for i, b := range data {
		if f.werrCall == call && i == f.werrAfter {
			return i, true
		}
		in.fsStep("byte")
		if h == nil || h.app || h.pos >= len(ent.content) {
			ent.content = append(ent.content, b)
			if h != nil {
				h.pos = len(ent.content)
			}
		} else {
			ent.content = append([]*Term{}, ent.content...)
			ent.content[h.pos] = b
			h.pos++
		}
	}
	return len(data), false
}

func errRes(e iface) value { return e }

func init() {
	nilErr := iface{}
	fsIntrinsics["os.Stat"] = func(fr *frame, a []value) value {
		in := fr.in
		f := in.fsm()
		if in.fsFail("stat") {
			return tuple{iface{}, f.errOther}
		}
		if in.fsFind(a[0].(Str)) == nil {
			return tuple{iface{}, f.errNotExist}
		}
		return tuple{iface{}, nilErr}
	}
	fsIntrinsics["os.IsNotExist"] = func(fr *frame, a []value) value {
		in := fr.in
		e := a[0].(iface)
		ne := in.fsm().errNotExist
		return in.tc.Bool(e.t != nil && e.v == ne.v)
	}
	fsIntrinsics["os.IsExist"] = func(fr *frame, a []value) value {
		in := fr.in
		e := a[0].(iface)
		ee := in.fsm().errExist
		return in.tc.Bool(e.t != nil && e.v == ee.v)
	}
	// filepath.Glob over the model's files: patterns with at most one '*' (in the last path element) and no other
	// metacharacter; anything else is refused as an engine error
	fsIntrinsics["path/filepath.Glob"] = func(fr *frame, a []value) value {
		in := fr.in
		pat := a[0].(Str)
		star := -1
		for i, t := range pat.b {
			if !t.isConst() {
				continue
			}
			switch byte(t.cv()) {
			case '*':
				if star >= 0 {
					panic(engineError{"filepath.Glob: pattern with more than one '*' is not modelled"})
				}
				star = i
			case '?', '[', '\\':
				panic(engineError{"filepath.Glob: pattern metacharacter not modelled"})
			}
		}
		var out []value
		if star < 0 {
			if e := in.fsFind(pat); e != nil {
				out = append(out, e.path)
			}
			return tuple{out, nilErr}
		}
		pre, suf := pat.b[:star], pat.b[star+1:]
		for _, e := range in.fsm().files {
			p := e.path.b
			if len(p) < len(pre)+len(suf) {
				continue
			}
			mid := p[len(pre) : len(p)-len(suf)]
			slash := false
			for _, t := range mid {
				if t.isConst() && byte(t.cv()) == '/' {
					slash = true
				}
			}
			if slash {
				continue
			}
			eq := in.tc.And(in.strEq(Str{p[:len(pre)]}, Str{pre}), in.strEq(Str{p[len(p)-len(suf):]}, Str{suf}))
			if eq.isFalse() {
				continue
			}
			if in.decideBool(eq, "fs-glob") {
				out = append(out, e.path)
			}
		}
		return tuple{out, nilErr}
	}
	fsIntrinsics["os.ReadFile"] = func(fr *frame, a []value) value {
		in := fr.in
		f := in.fsm()
		if in.fsFail("read") {
			return tuple{[]value(nil), f.errIO}
		}
		e := in.fsFind(a[0].(Str))
		if e == nil {
			return tuple{[]value(nil), f.errNotExist}
		}
		out := make([]value, len(e.content))
		for i, b := range e.content {
			out[i] = b
		}
		return tuple{out, nilErr}
	}
	fsIntrinsics["os.WriteFile"] = func(fr *frame, a []value) value {
		in := fr.in
		f := in.fsm()
		if in.fsFail("create") {
			return f.errOther
		}
		e := in.fsCreate(a[0].(Str))
		if _, bad := in.fsWrite(e, toBytes(a[1])); bad {
			return f.errIO
		}
		return nilErr
	}
	fsIntrinsics["os.Rename"] = func(fr *frame, a []value) value {
		in := fr.in
		f := in.fsm()
		if in.fsFail("rename") {
			return f.errOther
		}
		src := in.fsFind(a[0].(Str))
		if src == nil {
			return f.errNotExist
		}
		in.fsStep("rename")
		if dst := in.fsFind(a[1].(Str)); dst != nil && dst != src {
			in.fsRemove(dst)
		}
		src.path = a[1].(Str)
		return nilErr
	}
	fsIntrinsics["os.Remove"] = func(fr *frame, a []value) value {
		in := fr.in
		f := in.fsm()
		if in.fsFail("remove") {
			return f.errOther
		}
		e := in.fsFind(a[0].(Str))
		if e == nil {
			return f.errNotExist
		}
		in.fsStep("remove")
		in.fsRemove(e)
		return nilErr
	}
	fsIntrinsics["os.CreateTemp"] = func(fr *frame, a []value) value {
		in := fr.in
		f := in.fsm()
		if in.fsFail("create") {
			return tuple{(*value)(nil), f.errOther}
		}
		dir, pat := a[0].(Str), a[1].(Str)
		f.tmpSeq++
		rnd := in.strConst(fmt.Sprintf("%09d", f.tmpSeq))
		// pattern: the last "*" is replaced by the random string, else it is appended
		pb := pat.b
		star := -1
		for i, t := range pb {
			if t.isConst() && t.cv() == '*' {
				star = i
			}
		}
		var name []*Term
		if star >= 0 {
			name = append(append(append(name, pb[:star]...), rnd.b...), pb[star+1:]...)
		} else {
			name = append(append(name, pb...), rnd.b...)
		}
		path := append(append(append([]*Term{}, dir.b...), in.tc.Const(8, '/')), name...)
		e := in.fsCreate(Str{path})
		var cell value = &fsHandle{ent: e}
		return tuple{&cell, nilErr}
	}
	// os.OpenFile(name, flag, perm) with the Linux flag values; os.Create = O_RDWR|O_CREATE|O_TRUNC
	const (
		oWRONLY = 0x1
		oRDWR   = 0x2
		oCREATE = 0x40
		oEXCL   = 0x80
		oTRUNC  = 0x200
		oAPPEND = 0x400
	)
	openFile := func(in *Interp, path Str, flag int) value {
		f := in.fsm()
		if flag&oCREATE != 0 && in.fsFail("create") {
			return tuple{(*value)(nil), f.errOther}
		}
		e := in.fsFind(path)
		switch {
		case e == nil && flag&oCREATE == 0:
			return tuple{(*value)(nil), f.errNotExist}
		case e != nil && flag&oCREATE != 0 && flag&oEXCL != 0:
			return tuple{(*value)(nil), f.errExist}
		case e == nil:
			in.fsStep("create")
			e = &fsFileEnt{path: path}
			f.files = append(f.files, e)
		case flag&oTRUNC != 0 && flag&(oWRONLY|oRDWR) != 0:
			in.fsStep("create")
			e.content = nil
		}
		var cell value = &fsHandle{ent: e, app: flag&oAPPEND != 0, ro: flag&(oWRONLY|oRDWR) == 0}
		return tuple{&cell, nilErr}
	}
	fsIntrinsics["os.OpenFile"] = func(fr *frame, a []value) value {
		return openFile(fr.in, a[0].(Str), int(mustConc(a[1])))
	}
	fsIntrinsics["os.Create"] = func(fr *frame, a []value) value {
		return openFile(fr.in, a[0].(Str), oRDWR|oCREATE|oTRUNC)
	}
	fsIntrinsics["os.Lstat"] = fsIntrinsics["os.Stat"]
	fsIntrinsics["os.MkdirAll"] = func(fr *frame, a []value) value { return nilErr }
	fsIntrinsics["os.Chmod"] = func(fr *frame, a []value) value { return nilErr }
	handle := func(in *Interp, v value) *fsHandle {
		p, ok := v.(*value)
		if !ok || p == nil {
			in.targetPanicStr("runtime error: invalid memory address or nil pointer dereference (*os.File)")
		}
		h, ok := (*p).(*fsHandle)
		if !ok {
			panic(engineError{"*os.File not created by the file-system model"})
		}
		return h
	}
	fsIntrinsics["(*os.File).Write"] = func(fr *frame, a []value) value {
		in := fr.in
		f := in.fsm()
		h := handle(in, a[0])
		if h.closed {
			return tuple{in.tc.Const(64, 0), f.errOther}
		}
		if h.ro {
			return tuple{in.tc.Const(64, 0), f.errOther}
		}
		n, bad := in.fsWriteAt(h.ent, h, toBytes(a[1]))
		if bad {
			return tuple{in.tc.Const(64, uint64(n)), f.errIO}
		}
		return tuple{in.tc.Const(64, uint64(n)), nilErr}
	}
	fsIntrinsics["(*os.File).Close"] = func(fr *frame, a []value) value {
		in := fr.in
		h := handle(in, a[0])
		if in.fsFail("close") {
			h.closed = true
			return in.fsm().errIO
		}
		h.closed = true
		return nilErr
	}
	fsIntrinsics["(*os.File).Sync"] = func(fr *frame, a []value) value {
		in := fr.in
		handle(in, a[0])
		if in.fsFail("sync") {
			return in.fsm().errIO
		}
		return nilErr
	}
	fsIntrinsics["(*os.File).Name"] = func(fr *frame, a []value) value {
		return handle(fr.in, a[0]).ent.path
	}

	// harness controls
	regVerif("verifFSCrashAt", func(fr *frame, a []value) value {
		f := fr.in.fsm()
		f.crashAt = int(sext64(mustConc(a[0]), 64))
		if f.crashAt >= 0 {
			f.crashAt += f.steps
		}
		return nil
	})
	regVerif("verifFSWriteError", func(fr *frame, a []value) value {
		f := fr.in.fsm()
		f.werrCall = int(sext64(mustConc(a[0]), 64))
		if f.werrCall >= 0 {
			f.werrCall += f.writeCalls
		}
		f.werrAfter = int(mustConc(a[1]))
		return nil
	})
	regVerif("verifFSFailOp", func(fr *frame, a []value) value {
		f := fr.in.fsm()
		f.failKind = strArg(a[0])
		f.failAt = int(sext64(mustConc(a[1]), 64))
		if f.failAt >= 0 {
			f.failAt += f.kindCount[f.failKind]
		}
		return nil
	})
	regVerif("verifFSSteps", func(fr *frame, a []value) value {
		return fr.in.tc.Const(64, uint64(fr.in.fsm().steps))
	})
	regVerif("verifFSDir", func(fr *frame, a []value) value { return fr.in.strConst("/verifdir") })
	regVerif("verifCrashed", func(fr *frame, a []value) value {
		return fr.in.tc.Bool(strings.Contains(fr.in.lastPanic, crashMsg))
	})
	// verifFSPut(path, bytes): place a file directly (used to build pre-crash states for replays)
	regVerif("verifFSFiles", func(fr *frame, a []value) value {
		return fr.in.tc.Const(64, uint64(len(fr.in.fsm().files)))
	})
}
