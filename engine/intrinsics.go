package main

import (
	"encoding/base64"
	"fmt"
	"go/types"
	"path/filepath"
	"strconv"
	"strings"

	blake2b "github.com/minio/blake2b-simd"
	"golang.org/x/tools/go/ssa"
)

type intrinsic func(fr *frame, args []value) value

var intrinsics map[string]intrinsic

func init() {
	intrinsics = map[string]intrinsic{
		"fmt.Errorf":  extErrorf,
		// errors.Unwrap / errors.Is over the engine's error values (fmt.Errorf with %w keeps its operand);
		// user-defined Unwrap/Is methods are not consulted (none in the code under check)
		"errors.Unwrap": func(fr *frame, a []value) value { return errUnwrap(a[0]) },
		"errors.Is": func(fr *frame, a []value) value {
			in := fr.in
			target := a[1]
			errT := types.Universe.Lookup("error").Type()
			for e := a[0]; ; {
				ei, ok := e.(iface)
				if !ok || ei.t == nil {
					ti, _ := target.(iface)
					return in.tc.Bool(ti.t == nil)
				}
				if in.decideBool(in.equals(errT, e, target), "errors.Is") {
					return in.tc.Bool(true)
				}
				e = errUnwrap(e)
			}
		},
		"fmt.Sprintf": extSprintf,
		"fmt.Sprint":  func(fr *frame, a []value) value { return fr.in.strConst("<fmt.Sprint>") },
		"fmt.Printf":  func(fr *frame, a []value) value { return tuple{fr.in.tc.Const(64, 0), iface{}} },
		"fmt.Println": func(fr *frame, a []value) value { return tuple{fr.in.tc.Const(64, 0), iface{}} },
		"fmt.Print":   func(fr *frame, a []value) value { return tuple{fr.in.tc.Const(64, 0), iface{}} },

		"reflect.TypeOf":            extReflectTypeOf,
		"(*reflect.rtype).Comparable": func(fr *frame, a []value) value {
			return fr.in.tc.Bool(types.Comparable(rtypeOf(a[0])))
		},
		"(*reflect.rtype).Kind": func(fr *frame, a []value) value {
			return fr.in.tc.Const(64, uint64(reflectKind(rtypeOf(a[0]))))
		},
		"(*reflect.rtype).Elem": func(fr *frame, a []value) value {
			switch u := rtypeOf(a[0]).Underlying().(type) {
			case *types.Pointer:
				return fr.in.rtypeIface(u.Elem())
			case *types.Slice:
				return fr.in.rtypeIface(u.Elem())
			case *types.Array:
				return fr.in.rtypeIface(u.Elem())
			case *types.Map:
				return fr.in.rtypeIface(u.Elem())
			}
			fr.in.targetPanicStr("reflect: Elem of invalid type")
			return nil
		},
		"(*reflect.rtype).String": func(fr *frame, a []value) value {
			return fr.in.strConst(rtypeOf(a[0]).String())
		},
		"reflect.New":               extReflectNew,
		"reflect.ValueOf":           extReflectValueOf,
		"reflect.DeepEqual":         extReflectDeepEqual,
		"(reflect.Value).Elem":      extValueElem,
		"(reflect.Value).Interface": extValueInterface,
		"(reflect.Value).Set":       extValueSet,

		"bytes.Compare": func(fr *frame, a []value) value {
			return fr.in.bytesCmp(toBytes(a[0]), toBytes(a[1]))
		},
		"bytes.Equal": func(fr *frame, a []value) value {
			return fr.in.strEq(Str{toBytes(a[0])}, Str{toBytes(a[1])})
		},

		"github.com/minio/blake2b-simd.Sum256":        extSum256,
		"(*encoding/base64.Encoding).EncodeToString": extB64Encode,

		"(*sync.Mutex).Lock":     func(fr *frame, a []value) value { fr.in.mutexLock(a[0].(*value)); return nil },
		"(*sync.Mutex).Unlock":   func(fr *frame, a []value) value { fr.in.mutexUnlock(a[0].(*value)); return nil },
		"(*sync.WaitGroup).Add":  func(fr *frame, a []value) value { fr.in.wgAdd(a[0].(*value), sext64(mustConc(a[1]), 64)); return nil },
		"(*sync.WaitGroup).Done": func(fr *frame, a []value) value { fr.in.wgAdd(a[0].(*value), -1); return nil },
		"(*sync.WaitGroup).Wait": func(fr *frame, a []value) value { fr.in.wgWait(a[0].(*value)); return nil },
		"(*sync.Once).Do":        extOnceDo,
		// sync.Map: an association list per receiver (keys compared as interface values); every
		// operation is one atomic step at a scheduling point
		"(*sync.Map).Load": func(fr *frame, a []value) value {
			m := fr.in.syncMapOf(a[0])
			if i := fr.in.mapFind(m, a[1]); i >= 0 {
				return tuple{copyVal(m.vals[i]), fr.in.tc.Bool(true)}
			}
			return tuple{iface{}, fr.in.tc.Bool(false)}
		},
		"(*sync.Map).Store": func(fr *frame, a []value) value {
			fr.in.mapUpdate(fr.in.syncMapOf(a[0]), a[1], a[2])
			return nil
		},
		"(*sync.Map).LoadOrStore": func(fr *frame, a []value) value {
			m := fr.in.syncMapOf(a[0])
			if i := fr.in.mapFind(m, a[1]); i >= 0 {
				return tuple{copyVal(m.vals[i]), fr.in.tc.Bool(true)}
			}
			fr.in.mapUpdate(m, a[1], a[2])
			return tuple{copyVal(a[2]), fr.in.tc.Bool(false)}
		},
		"(*sync.Map).LoadAndDelete": func(fr *frame, a []value) value {
			m := fr.in.syncMapOf(a[0])
			if i := fr.in.mapFind(m, a[1]); i >= 0 {
				v := m.vals[i]
				m.keys = append(m.keys[:i:i], m.keys[i+1:]...)
				m.vals = append(m.vals[:i:i], m.vals[i+1:]...)
				return tuple{v, fr.in.tc.Bool(true)}
			}
			return tuple{iface{}, fr.in.tc.Bool(false)}
		},
		"(*sync.Map).Delete": func(fr *frame, a []value) value {
			m := fr.in.syncMapOf(a[0])
			if i := fr.in.mapFind(m, a[1]); i >= 0 {
				m.keys = append(m.keys[:i:i], m.keys[i+1:]...)
				m.vals = append(m.vals[:i:i], m.vals[i+1:]...)
			}
			return nil
		},

		"path/filepath.Join": extFilepathJoin,

		"encoding/json.Marshal":   func(fr *frame, a []value) value { panic(engineError{"encoding/json is not encodable (reflection-driven)"}) },
		"encoding/json.Unmarshal": func(fr *frame, a []value) value { panic(engineError{"encoding/json is not encodable (reflection-driven)"}) },
		"github.com/hashicorp/golang-lru.NewARC": func(fr *frame, a []value) value {
			panic(engineError{"golang-lru ARC cache is not executed; use a harness NodeCache"})
		},
	}
	for k, v := range fsIntrinsics {
		intrinsics[k] = v
	}
}

func mustConc(v value) uint64 {
	t := v.(*Term)
	if !t.isConst() {
		panic(engineError{"symbolic value where a concrete one is required"})
	}
	return t.cv()
}

func toBytes(v value) []*Term {
	switch v := v.(type) {
	case []value:
		out := make([]*Term, len(v))
		for i, e := range v {
			out[i] = e.(*Term)
		}
		return out
	case Str:
		return v.b
	}
	panic(engineError{fmt.Sprintf("toBytes of %T", v)})
}

func (in *Interp) fromBytes(b []*Term) []value {
	out := make([]value, len(b))
	for i, e := range b {
		out[i] = e
	}
	return out
}

// ---- fmt ----

func (e *Engine) namedType(pkg, name string) types.Type {
	p := e.prog.ImportedPackage(pkg)
	if p == nil {
		panic(engineError{"package not loaded: " + pkg})
	}
	m, ok := p.Members[name].(*ssa.Type)
	if !ok {
		panic(engineError{"type not found: " + pkg + "." + name})
	}
	return m.Type()
}

func errUnwrap(e value) value {
	ei, ok := e.(iface)
	if !ok || ei.t == nil {
		return iface{}
	}
	if p, ok := ei.t.(*types.Pointer); ok {
		if n, ok := p.Elem().(*types.Named); ok && n.Obj().Name() == "wrapError" && n.Obj().Pkg() != nil && n.Obj().Pkg().Path() == "fmt" {
			return (*(ei.v.(*value))).(structure)[1]
		}
	}
	return iface{}
}

func extErrorf(fr *frame, args []value) value {
	in := fr.in
	format, _ := args[0].(Str).concrete()
	var wrapped value
	if i := strings.Index(format, "%w"); i >= 0 {
		// find the operand index of %w
		n := 0
		for j := 0; j < i; j++ {
			if format[j] == '%' {
				if j+1 < len(format) && format[j+1] == '%' {
					j++
					continue
				}
				n++
			}
		}
		va := args[1].([]value)
		if n < len(va) {
			wrapped = va[n]
		}
	}
	msg := in.strConst("fmt.Errorf(" + strconv.Quote(format) + ")")
	if wrapped != nil {
		if w, ok := wrapped.(iface); ok && w.t != nil {
			var cell value = structure{msg, w}
			return iface{t: types.NewPointer(in.eng.namedType("fmt", "wrapError")), v: &cell}
		}
	}
	var cell value = structure{msg}
	return iface{t: types.NewPointer(in.eng.namedType("errors", "errorString")), v: &cell}
}

func (in *Interp) objID(p *value) int {
	if id, ok := in.objIDs[p]; ok {
		return id
	}
	id := len(in.objIDs) + 1
	in.objIDs[p] = id
	return id
}

func extSprintf(fr *frame, args []value) value {
	in := fr.in
	format, ok := args[0].(Str).concrete()
	if !ok {
		panic(engineError{"fmt.Sprintf with symbolic format"})
	}
	va, _ := args[1].([]value)
	var out []*Term
	ai := 0
	lit := func(s string) {
		out = append(out, in.strConst(s).b...)
	}
	for i := 0; i < len(format); i++ {
		c := format[i]
		if c != '%' {
			out = append(out, in.tc.Const(8, uint64(c)))
			continue
		}
		i++
		if i >= len(format) {
			break
		}
		verb := format[i]
		if verb == '%' {
			lit("%")
			continue
		}
		if ai >= len(va) {
			lit("%!" + string(verb) + "(MISSING)")
			continue
		}
		a := va[ai].(iface)
		ai++
		switch v := a.v.(type) {
		case Str:
			out = append(out, v.b...)
		case *Term:
			if v.isConst() {
				if v.w == 0 {
					lit(strconv.FormatBool(v.cv() != 0))
				} else if isSigned(a.t) {
					lit(strconv.FormatInt(sext64(v.cv(), v.w), 10))
				} else {
					lit(strconv.FormatUint(v.cv(), 10))
				}
			} else {
				lit("<sym>")
			}
		case *value:
			if verb == 'p' || true {
				lit(fmt.Sprintf("0xc%07x", in.objID(v)*16))
			}
		case nil:
			lit("<nil>")
		default:
			lit(fmt.Sprintf("<%T>", v))
		}
	}
	return Str{out}
}

// ---- reflect ----

func (in *Interp) rtypeIface(t types.Type) iface {
	if t == nil {
		return iface{}
	}
	return iface{t: types.NewPointer(in.eng.namedType("reflect", "rtype")), v: rtype{t}}
}

// reflectKind: the reflect.Kind number of a go/types type.
func reflectKind(t types.Type) int {
	switch u := t.Underlying().(type) {
	case *types.Basic:
		switch u.Kind() {
		case types.Bool:
			return 1
		case types.Int:
			return 2
		case types.Int8:
			return 3
		case types.Int16:
			return 4
		case types.Int32:
			return 5
		case types.Int64:
			return 6
		case types.Uint:
			return 7
		case types.Uint8:
			return 8
		case types.Uint16:
			return 9
		case types.Uint32:
			return 10
		case types.Uint64:
			return 11
		case types.Uintptr:
			return 12
		case types.Float32:
			return 13
		case types.Float64:
			return 14
		case types.String:
			return 24
		case types.UnsafePointer:
			return 26
		}
	case *types.Array:
		return 17
	case *types.Chan:
		return 18
	case *types.Signature:
		return 19
	case *types.Interface:
		return 20
	case *types.Map:
		return 21
	case *types.Pointer:
		return 22
	case *types.Slice:
		return 23
	case *types.Struct:
		return 25
	}
	return 0
}

func extReflectTypeOf(fr *frame, args []value) value {
	return fr.in.rtypeIface(args[0].(iface).t)
}

func rtypeOf(v value) types.Type {
	if rt, ok := v.(rtype); ok { // method receiver (the interface's dynamic value)
		return rt.t
	}
	it := v.(iface)
	if it.t == nil {
		panic(targetPanic{iface{t: types.Typ[types.String], v: Str{}}})
	}
	return it.v.(rtype).t
}

type rvalueA struct {
	t    types.Type
	v    value
	addr *value
}

func extReflectNew(fr *frame, args []value) value {
	in := fr.in
	if args[0].(iface).t == nil {
		in.targetPanicStr("reflect: New(nil)")
	}
	t := rtypeOf(args[0])
	cell := in.zero(t)
	return rvalueA{t: types.NewPointer(t), v: &cell}
}

func extReflectValueOf(fr *frame, args []value) value {
	it := args[0].(iface)
	if it.t == nil {
		return rvalueA{}
	}
	return rvalueA{t: it.t, v: it.v}
}

func asRV(v value) rvalueA {
	switch v := v.(type) {
	case rvalueA:
		return v
	}
	panic(engineError{fmt.Sprintf("not a reflect.Value: %T", v)})
}

func extValueElem(fr *frame, args []value) value {
	in := fr.in
	rv := asRV(args[0])
	if rv.t == nil {
		in.targetPanicStr("reflect: call of reflect.Value.Elem on zero Value")
	}
	switch t := rv.t.Underlying().(type) {
	case *types.Pointer:
		p := rv.v.(*value)
		if p == nil {
			return rvalueA{}
		}
		return rvalueA{t: t.Elem(), v: *p, addr: p}
	case *types.Interface:
		it := rv.v.(iface)
		if it.t == nil {
			return rvalueA{}
		}
		return rvalueA{t: it.t, v: it.v}
	}
	in.targetPanicStr("reflect: call of reflect.Value.Elem on " + rv.t.String() + " Value")
	return nil
}

func extValueInterface(fr *frame, args []value) value {
	in := fr.in
	rv := asRV(args[0])
	if rv.t == nil {
		in.targetPanicStr("reflect: call of reflect.Value.Interface on zero Value")
	}
	cur := rv.v
	if rv.addr != nil {
		cur = *rv.addr
	}
	if _, ok := rv.t.Underlying().(*types.Interface); ok {
		return cur.(iface)
	}
	return iface{t: rv.t, v: copyVal(cur)}
}

func extValueSet(fr *frame, args []value) value {
	in := fr.in
	x, y := asRV(args[0]), asRV(args[1])
	if x.t == nil {
		in.targetPanicStr("reflect: call of reflect.Value.Set on zero Value")
	}
	if x.addr == nil {
		in.targetPanicStr("reflect: reflect.Value.Set using unaddressable value")
	}
	if y.t == nil {
		in.targetPanicStr("reflect: call of reflect.Value.Set with zero Value argument")
	}
	if !types.AssignableTo(y.t, x.t) {
		in.targetPanicStr("reflect.Set: value of type " + y.t.String() + " is not assignable to type " + x.t.String())
	}
	if _, ok := x.t.Underlying().(*types.Interface); ok {
		if _, yi := y.t.Underlying().(*types.Interface); yi {
			in.store(fr, x.addr, y.v, nil)
		} else {
			in.store(fr, x.addr, iface{t: y.t, v: copyVal(y.v)}, nil)
		}
		return nil
	}
	in.store(fr, x.addr, y.v, nil)
	return nil
}

func extReflectDeepEqual(fr *frame, args []value) value {
	in := fr.in
	a, b := args[0].(iface), args[1].(iface)
	return in.deepEqual(types.NewInterfaceType(nil, nil), a, b, 0)
}

// ---- hashing: functional, injective model; real digest when the input is concrete ----

func (in *Interp) newHashCall(kind string, inB []*Term, src *hashCall, n int) *hashCall {
	tc := in.tc
	// identical inputs (same terms) -> same call
	for _, h := range tc.hashes {
		if h.kind != kind || h.src != src || len(h.in) != len(inB) {
			continue
		}
		same := true
		for i := range inB {
			if h.in[i] != inB[i] {
				same = false
				break
			}
		}
		if same {
			return h
		}
	}
	h := &hashCall{id: len(tc.hashes) + 1, kind: kind, in: inB, src: src, n: n}
	tc.hashes = append(tc.hashes, h)
	return h
}

func (in *Interp) hashBytes(h *hashCall) []*Term {
	out := make([]*Term, h.n)
	for i := 0; i < h.n; i++ {
		out[i] = in.tc.mk(&Term{op: opHashByte, w: 8, c: uint64(i), hc: h})
	}
	return out
}

func allConc(b []*Term) ([]byte, bool) {
	out := make([]byte, len(b))
	for i, t := range b {
		if !t.isConst() {
			return nil, false
		}
		out[i] = byte(t.cv())
	}
	return out, true
}

func extSum256(fr *frame, args []value) value {
	in := fr.in
	inB := toBytes(args[0])
	h := in.newHashCall("blake2b256", inB, nil, 32)
	if cb, ok := allConc(inB); ok && h.conc == nil {
		d := blake2b.Sum256(cb)
		h.conc = d[:]
	}
	return array(in.fromBytes(in.hashBytes(h)))
}

func (in *Interp) encName(p *value) string {
	for _, n := range []string{"RawURLEncoding", "URLEncoding", "StdEncoding", "RawStdEncoding"} {
		g := in.eng.prog.ImportedPackage("encoding/base64").Var(n)
		if g == nil {
			continue
		}
		gp := in.globalAddr(g)
		if q, ok := (*gp).(*value); ok && q == p {
			return n
		}
	}
	return ""
}

func extB64Encode(fr *frame, args []value) value {
	in := fr.in
	encP := args[0].(*value)
	name := in.encName(encP)
	if name == "" {
		panic(engineError{"base64 encoding object is not one of the package-level encodings"})
	}
	var enc *base64.Encoding
	switch name {
	case "RawURLEncoding":
		enc = base64.RawURLEncoding
	case "URLEncoding":
		enc = base64.URLEncoding
	case "StdEncoding":
		enc = base64.StdEncoding
	case "RawStdEncoding":
		enc = base64.RawStdEncoding
	}
	src := toBytes(args[1])
	// whole output of one hash call?
	var from *hashCall
	if len(src) > 0 && src[0].op == opHashByte {
		from = src[0].hc
		if from.n != len(src) {
			from = nil
		} else {
			for i, t := range src {
				if t.op != opHashByte || t.hc != from || int(t.c) != i {
					from = nil
					break
				}
			}
		}
	}
	if from != nil {
		h := in.newHashCall("b64:"+name, nil, from, enc.EncodedLen(len(src)))
		if from.conc != nil && h.conc == nil {
			h.conc = []byte(enc.EncodeToString(from.conc))
		}
		return Str{in.hashBytes(h)}
	}
	if cb, ok := allConc(src); ok {
		return in.strConst(enc.EncodeToString(cb))
	}
	panic(engineError{"base64 encoding of symbolic bytes that are not a digest"})
}

func (in *Interp) syncMapOf(recv value) *mapV {
	p, ok := recv.(*value)
	if !ok || p == nil {
		in.targetPanicStr("runtime error: invalid memory address or nil pointer dereference (*sync.Map)")
	}
	in.yield("syncmap")
	m := in.sched.syncMaps[p]
	if m == nil {
		m = &mapV{keyT: types.NewInterfaceType(nil, nil)}
		in.sched.syncMaps[p] = m
	}
	return m
}

func extOnceDo(fr *frame, args []value) value {
	in := fr.in
	p := args[0].(*value)
	st := in.sched.onces[p]
	if st == nil {
		st = &onceState{}
		in.sched.onces[p] = st
	}
	if st.done {
		in.cur.vc.join(st.vc)
		return nil
	}
	st.done = true
	in.call(fr, 0, args[1], nil)
	st.vc = in.cur.vc.clone()
	in.tick(in.cur)
	return nil
}

func extFilepathJoin(fr *frame, args []value) value {
	in := fr.in
	elems := args[0].([]value)
	allC := true
	var cs []string
	for _, e := range elems {
		s, ok := e.(Str).concrete()
		if !ok {
			allC = false
		}
		cs = append(cs, s)
	}
	if allC {
		return in.strConst(filepath.Join(cs...))
	}
	// symbolic components: plain join (components assumed clean: the node-name
	// alphabet has no separators or dots)
	var out []*Term
	for _, e := range elems {
		s := e.(Str)
		if len(s.b) == 0 {
			continue
		}
		if len(out) > 0 {
			out = append(out, in.tc.Const(8, '/'))
		}
		out = append(out, s.b...)
	}
	return Str{out}
}

// ---- package initialisation ----

var initAllow = map[string]bool{
	"io": true, "encoding/base64": true, "encoding/binary": true,
	"hash/crc64": true, "sort": true, "bytes": true, "context": false,
}

func (in *Interp) runInit() {
	for path, p := range in.eng.pkgs {
		_ = path
		in.initPkg(p, map[*ssa.Package]bool{})
	}
}

func (in *Interp) initPkg(p *ssa.Package, seen map[*ssa.Package]bool) {
	if seen[p] {
		return
	}
	seen[p] = true
	in.inInit = true
	defer func() { in.inInit = false }()
	f := p.Func("init")
	if f == nil {
		return
	}
	in.callSSA(nil, 0, f, nil, nil)
}
