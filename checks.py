# Per-property run tables for ./check. Only bounds that ran clean (complete, no
# unknowns, no engine errors) on the unchanged tree are registered here.

def H(harness, bounds, **kw):
    d = {"harness": harness, "bounds": bounds}
    d.update(kw)
    return d

COMMON_ASSUMPTIONS = [
    "engine: own symbolic interpreter for go/ssa (x/tools v0.29.0) over /repo's current source; integers are bit-vectors at their Go width; heap shape concrete per path, scalars symbolic",
    "hash stub: blake2b.Sum256 and base64 EncodeToString are functional and injective (equal names iff equal input bytes); the real digest is computed when the input is concrete",
    "fmt.Errorf/Sprintf are intrinsics (message text opaque, %w operand kept); reflect.TypeOf/New/ValueOf/Elem/Interface/Set/DeepEqual are intrinsics over engine values",
    "encoding/json (default marshaler) and the golang-lru ARC cache are not executed; harness marshalers (8-byte fixed width) and harness caches stand in",
    "goroutines in flush run under the engine scheduler; unless stated, one deterministic schedule",
]

PROPERTIES = {
    "C01": {
        "level": "model_checking",
        "runs": {
            "quick": [H("HarnessC01a", {"K": 3, "BF": 2, "Lmax": 2})],
            "thorough": [H("HarnessC01a", {"K": 3, "BF": 2, "Lmax": 2}), H("HarnessC01a", {"K": 4, "BF": 2, "Lmax": 2}, sample_every=500)],
        },
        "bounds_statement": "histories of <= K operations from the empty tree",
        "assumptions": COMMON_ASSUMPTIONS,
    },
}
