# Per-property run tables for ./check. Only bounds that ran clean (complete, no
# unknowns, no engine errors) on the unchanged tree are registered here.

def H(harness, bounds, **kw):
    d = {"harness": harness, "bounds": bounds}
    d.update(kw)
    return d

COMMON_ASSUMPTIONS = [
    "engine: own symbolic interpreter for go/ssa (x/tools v0.29.0) over /repo's current source; integers are bit-vectors at their Go width; heap shape concrete per path, scalars symbolic; append/growslice capacity policy mirrored from the Go 1.23 runtime",
    "keys are a user Key type whose Order compares a symbolic 64-bit id and whose Layer is an uninterpreted function of the id bounded by Lmax: every total order (ties included) and every layer assignment of the keys in play is covered",
    "hash stub: blake2b.Sum256 and base64 EncodeToString are functional and injective (equal names iff equal input bytes); the real digest is computed when the input is concrete",
    "fmt.Errorf/Sprintf are intrinsics (message text opaque, %w operand kept); reflect.TypeOf/New/ValueOf/Elem/Interface/Set/DeepEqual are intrinsics over engine values; sync.Mutex/WaitGroup/Once, channels and goroutines run under the engine scheduler",
    "encoding/json (default marshaler) and the golang-lru ARC cache are not executed; harness marshalers (8-byte fixed width) and harness caches stand in",
    "unless a run says sched, goroutines in flush follow one deterministic schedule",
    "solver: z3 4.8.12 over a pipe (QF_BV terms, no set-logic), per-query timeout, z3 5.1.0 one-shot fallback on unknown; any (error answer is treated as inconclusive; on a sample of paths every query (feasibility, assertion, classification) is re-decided by z3 5.1.0 and cvc5 1.0 and a differing answer fails the run as an engine error (counts in coverage.solver.cross_*)",
]

FILEPKG = {"pkgs": "./persist/file", "overlays": ["harness/persist_file=persist/file"], "pkgdir": "persist/file", "harness_dirs": ["harness/persist_file"], "sample_every": 1, "validate": 300}
S3PKG = {"pkgs": "./persist/s3", "overlays": ["harness/persist_s3=persist/s3"], "pkgdir": "persist/s3", "harness_dirs": ["harness/persist_s3"], "sample_every": 3}
B2 = {"BF": 2, "Lmax": 2, "KW": 8}

def b(**kw):
    d = dict(B2)
    d.update(kw)
    return d

PROPERTIES = {
    "C01": {
        "runs": {
            "quick": [H("HarnessC01a", b(K=3, CACHE=0)), H("HarnessC01a", b(K=3, CACHE=0, CMPSCALE=5)), H("HarnessC01a", b(K=3, CACHE=1)), H("HarnessC01a", b(K=3, CACHE=1, BF=3)), H("HarnessC01a", b(K=3, CACHE=0, FMT=2)), H("HarnessC01a", b(K=3, CACHE=1, FMT=1)), H("HarnessC01a", b(K=4, CACHE=0), sample_every=500), H("HarnessC01e", b(K=3)),
                      H("HarnessC01d", {"K": 2, "BF": 4, "SIGNED": 0, "KW": 5, "Lmax": 8}, sample_every=200)],
            "thorough": [H("HarnessC01e", b(K=4), sample_every=200), H("HarnessC01d", {"K": 2, "BF": 2, "SIGNED": 0, "KW": 5, "Lmax": 8}, sample_every=1000), H("HarnessC01d", {"K": 2, "BF": 3, "SIGNED": 0, "KW": 5, "Lmax": 8}, sample_every=500),
                         H("HarnessC01d", {"K": 2, "BF": 4, "SIGNED": 0, "KW": 5, "Lmax": 8}, sample_every=200), H("HarnessC01d", {"K": 2, "BF": 2, "SIGNED": 1, "KW": 4, "Lmax": 8}, sample_every=500), H("HarnessC01d", {"K": 2, "BF": 3, "SIGNED": 1, "KW": 4, "Lmax": 8}, sample_every=500), H("HarnessC01a", b(K=3, CACHE=0)), H("HarnessC01a", b(K=3, CACHE=1)), H("HarnessC01a", b(K=3, CACHE=0, BF=3)),
                         H("HarnessC01a", b(K=4, CACHE=0), sample_every=500)],
        },
        "labels": ["C01."],
        "extra_labels": ["uncaught-panic", "deadlock", "nontermination"],
        "must_reach": ["C01.step.iter-seq", "C01.step.get-found", "C01.h.delete.result", "C01.slice-values.contents", "C01.slice-values.delete.result", "C01.int-keys.contents", "C01.int-keys.get"],
        "bounds_statement": "histories of <= K operations (insert / delete with arbitrary key and value / persist+reload / clone / persist) from the empty tree over symbolic keys (any order, ties, any layer <= Lmax); battery after every operation",
        "outside": ["histories longer than K", "string / []byte / struct keys at tree level (their comparison and layer functions are covered per type by the C14 leaf harnesses; integer keys run end-to-end in HarnessC01d)", "default JSON marshaler", "branch factors other than those listed"],
        "assumptions": COMMON_ASSUMPTIONS,
    },
    "C02": {
        "runs": {
            "quick": [H("HarnessC02a", b(N=3, K1=1, CACHE=1, PERSISTFIRST=1, HREQ=-1, TMASK=7)), H("HarnessC02a", b(N=3, K1=1, CACHE=1, PERSISTFIRST=1, FRESHCACHE=1, HREQ=-1, TMASK=12)),
                      # two writers through one shared interior node: height-1 base, two trees re-loaded through the cache, inserts only
                      H("HarnessC02a", b(N=3, K1=2, CACHE=1, PERSISTFIRST=1, HREQ=1, TMASK=12, INSERTONLY=1, LPAT=3), sample_every=500),
                      # a base that was never persisted (all nodes in memory and dirty at the first clone): the original and the clone of the clone are modified
                      H("HarnessC02a", b(N=3, K1=1, CACHE=0, PERSISTFIRST=0, HREQ=-1, TMASK=3), sample_every=100)] +
                     # the v1marshaler decode paths after a restart (the cache fills with decoded nodes)
                     [H("HarnessC02a", b(N=3, K1=1, CACHE=1, PERSISTFIRST=1, FRESHCACHE=1, HREQ=-1, TMASK=12, FMT=f), sample_every=200) for f in (1, 2)] +
                     # no persist between the captures (clone, cursor) and the later writes: the cursor is opened right after the last build insert
                     [H("HarnessC02a", b(N=3, K1=1, CACHE=0, PERSISTFIRST=0, HREQ=-1, TMASK=3, NOROOT=1), sample_every=100)] +
                     # directed: a re-loaded height-1 tree (nodes from the shared cache) gets a delete and then another delete on the same handle (SEQ.c02=11):
                     # when the first one empties the top node, the tree shrinks onto its child and the second one works on what shrink built
                     [H("HarnessC02a", {**b(N=3, K1=2, CACHE=1, PERSISTFIRST=1, HREQ=1, TMASK=4), "SEQ.c02": 11}, sample_every=500)],
            "thorough": [H("HarnessC02a", {**b(N=3, K1=2, CACHE=1, PERSISTFIRST=1, HREQ=1, TMASK=4), "SEQ.c02": 10}, sample_every=1000)] + [H("HarnessC02a", b(N=3, K1=1, CACHE=c, PERSISTFIRST=p, HREQ=-1, TMASK=15), sample_every=500) for c in (0, 1, 2) for p in (0, 1)] +
                        [H("HarnessC02a", b(N=2, K1=2, CACHE=1, PERSISTFIRST=1, HREQ=-1, TMASK=15), sample_every=2000)],
        },
        "must_reach": ["C02.clone.iter-seq", "C02.root-shared-cache.iter-seq", "C02.root-no-cache.iter-seq", "C02.cursor.seq", "C02.original.iter-seq"],
        "bounds_statement": "base version of N ascending entries (optionally persisted and re-loaded through the cache first), captured by Clone, by Cursor and by MakeRoot; K1 symbolic operations (insert/delete/persist) each on the original, a second clone, or one of two trees re-loaded from the retained root through the same cache; every captured version re-observed after every operation (clone, LoadMast via the shared cache, LoadMast cache-less, cursor); also: a base that was never persisted, the v1marshaler decode paths after a restart (cache filled by decoding)",
        "outside": ["more than K1 later operations", "the real ARC cache (harness caches: none, unbounded, FIFO capacity 1)"],
        "assumptions": COMMON_ASSUMPTIONS,
    },
    "C04": {
        "runs": {
            "quick": [H("HarnessC04a", b(K=4, NOPS=3), sample_every=200), H("HarnessC04a", b(K=3, NOPS=3, BF=3))] + [H("HarnessC04b", b(N=5, K=1, NOPS=2, HREQ=2, LPAT=p)) for p in (18, 6, 19, 63)] + [H("HarnessC04a", {**b(K=k, NOPS=3), "SEQ.h": q}, sample_every=200) for k, q in ((5, 10),)] + [H("HarnessC04b", {**b(N=5, K=2, NOPS=3, HREQ=2, LPAT=p), "SEQ.h": q}, sample_every=20) for p in (18, 6, 19, 63) for q in (20, 21)] + [H("HarnessC04b", b(N=17, K=1, NOPS=2, Lmax=4, LRULER=1, CONCRETEKEYS=1), sample_every=10, max_steps=30000000)] +
                     # all seven operation kinds (incl. clone, go back to the first persisted version, restart with an empty cache) through a cache
                     [H("HarnessC04a", b(K=4, NOPS=7, CACHE=1), sample_every=200)] +
                     # the v1marshaler format under a nil-sensitive marshaler (nil and empty lists encode differently, as in JSON): height-2 bases
                     [H("HarnessC04b", b(N=5, K=1, NOPS=2, HREQ=2, LPAT=p, FMT=1)) for p in (18, 6)],
            "thorough": [H("HarnessC04b", b(N=5, K=1, NOPS=2, HREQ=2), sample_every=500), H("HarnessC04a", b(K=4, NOPS=3), sample_every=200), H("HarnessC04a", b(K=3, NOPS=4)), H("HarnessC04a", b(K=3, NOPS=3, BF=3))],
        },
        "must_reach": ["C04.height-rule", "C04.same-link"],
        "bounds_statement": "histories of <= K operations from the empty tree (insert, delete, persist+reload, clone, persist, go back to the first persisted version, restart with an empty cache; the last four only where NOPS says so); final persisted root compared with (a) the height rule and (b) the root of a fresh tree given the same entries in ascending order",
        "assumptions": COMMON_ASSUMPTIONS,
    },
    "C05": {
        "runs": {
            "quick": [H("HarnessC05a", b(K=2, K2=1, FMT=0, CACHE=0)), H("HarnessC05a", b(K=2, K2=1, FMT=1, CACHE=1)), H("HarnessC05a", b(K=2, K2=1, FMT=2, CACHE=0)), H("HarnessC05a", b(K=2, K2=1, FMT=1, CACHE=0)), H("HarnessC05a", b(K=2, K2=1, FMT=2, CACHE=1)), H("HarnessC05a", b(K=1, K2=2, FMT=0, CACHE=1)), H("HarnessC05a", b(K=2, K2=2, FMT=0, CACHE=1), sample_every=500),
                      # values whose encoding may be empty (raw-bytes codec), decoded from the store
                      H("HarnessC05e", b(N=3, CACHE=0)), H("HarnessC05e", b(N=3, CACHE=1, FRESHCACHE=1)), H("HarnessC05e", b(N=3, CACHE=0, REUSE=1)),
                      H("HarnessC05a", b(N0=3, K=0, K2=1, FMT=0, CACHE=0), sample_every=50), H("HarnessC05a", b(N0=3, K=0, K2=1, FMT=0, CACHE=1), sample_every=50)],
            "thorough": [H("HarnessC05a", b(K=3, K2=1, FMT=f, CACHE=0), sample_every=200) for f in (0, 1, 2)] + [H("HarnessC05a", b(K=3, K2=1, FMT=0, CACHE=1), sample_every=200), H("HarnessC05e", b(N=4, CACHE=0))],
        },
        "must_reach": ["C05.reloaded.iter-seq", "C05.size", "C05.modified-reloaded-tree-persists-canonically", "C05.persist-and-reload-do-not-panic"],
        "bounds_statement": "trees from <= K inserts/deletes, persisted and re-loaded, <= K2 further operations, persisted and re-loaded again; both node formats, both v1marshaler decode paths, cache on/off; byte-slice values of length 0 or 1 under a raw-bytes codec (empty encodings)",
        "outside": ["JSON round trip of the Root record and the default JSON marshaler (encoding/json is not encodable)"],
        "assumptions": COMMON_ASSUMPTIONS,
    },
    "C06": {
        "runs": {
            "quick": [H("HarnessC06a", b(N=2, K=2, MODE=m)) for m in (0, 1, 2, 3, 4, 5, 6)] + [H("HarnessC06a", b(N=2, K=2, MODE=m, KEEP=1)) for m in (1, 3)] +
                     # pointer-typed values: equal under reflect.DeepEqual, never identical across two decodes
                     [H("HarnessC06p", b(N=3, MODE=m)) for m in (0, 1)] + [H("HarnessC06a", b(N=3, K=1, MODE=7))] +
                     # CMPSCALE: the key order returns -3/0/+3 (only the sign of a comparison is specified): unrelated and related pairs
                     [H("HarnessC06a", b(N=2, K=2, MODE=m, CMPSCALE=3)) for m in (0, 2, 3)] + [H("HarnessC06a", b(N=17, K=1, MODE=1, Lmax=4, LRULER=1, CONCRETEKEYS=1), sample_every=10, max_steps=30000000)],
            "thorough": [H("HarnessC06a", b(N=3, K=2, MODE=m), sample_every=300) for m in (0, 1, 2, 3)] + [H("HarnessC06a", b(N=3, K=3, MODE=m), sample_every=300) for m in (4, 5, 6)] + [H("HarnessC06a", b(N=3, K=2, MODE=7), sample_every=300), H("HarnessC06a", b(N=4, K=1, MODE=7), sample_every=300)] +
                        [H("HarnessC06a", b(N=4, K=1, MODE=m), sample_every=300) for m in (0, 1)],
        },
        "must_reach": ["C06.iter.each-correct", "C06.iter.complete", "C06.iter.ascending-once", "C06.cursor-same-entries", "C06.stop-count"],
        "bounds_statement": "ordered pairs (old,new): new = old(N ascending entries) + K inserts/deletes, in memory and persisted (re-loaded, or -- KEEP -- the in-process handle just persisted); two independent trees of N and K entries, in memory and persisted; nil old; emptied tree on either side; DiffIter vs model difference, StartDiff/NextEntry vs DiffIter, early stop and callback error at every position",
        "assumptions": COMMON_ASSUMPTIONS,
    },
    "C07": {
        "runs": {
            # KEEP=1: the versions are the in-process handles that have just been persisted (root = a name, or nil when emptied by Delete), not re-loaded trees
            "quick": [H("HarnessC07a", b(N=2, K=2, MODE=m, KEEP=1)) for m in (1, 3)] + [H("HarnessC07a", b(N=3, K=1, MODE=1, FAULT=6))] + [H("HarnessC07a", b(N=3, K=1, MODE=1)), H("HarnessC07a", b(N=3, K=2, MODE=3)), H("HarnessC07a", b(N=3, K=2, MODE=3, CMPSCALE=3)), H("HarnessC07a", b(N=3, K=2, MODE=7)), H("HarnessC07a", b(N=4, K=3, MODE=8)), H("HarnessC07a", b(N=3, K=4, MODE=9)),
                      # directed: concrete 33-entry tree of height 5 (ruler layers), one symbolic modification (any key, any layer <= 5)
                      H("HarnessC07a", b(N=33, K=1, MODE=1, LRULER=1, CONCRETEKEYS=1, Lmax=5), sample_every=20, max_steps=20000000)] +
                     # CACHEMIX: the versions are written through a node cache; one side is opened through it (1: old, 2: new), the other without a cache
                     [H("HarnessC07a", b(N=33, K=1, MODE=1, LRULER=1, CONCRETEKEYS=1, Lmax=5, CACHEMIX=m), sample_every=20, max_steps=20000000) for m in (1, 2)] + [H("HarnessC07a", b(N=3, K=2, MODE=1, CACHEMIX=m)) for m in (1, 2)],
            "thorough": [H("HarnessC07a", b(N=3, K=2, MODE=1), sample_every=500), H("HarnessC07a", b(N=4, K=1, MODE=1), sample_every=500), H("HarnessC07a", b(N=3, K=3, MODE=3), sample_every=500), H("HarnessC07a", b(N=3, K=3, MODE=7), sample_every=500), H("HarnessC07a", b(N=4, K=2, MODE=7), sample_every=500)],
        },
        "must_reach": ["C07.added-covers-new-only-nodes", "C07.added-within-new", "C07.added-once", "C07.removed-covers-old-only-nodes", "C07.replica-content"],
        "bounds_statement": "pairs of persisted versions: descendant (N entries + K operations) and unrelated (N and K entries), re-loaded or (KEEP) the in-process handles, cache-less or (CACHEMIX) written through a cache with one side opened through it; reach sets computed by an independent decoder over the store; replica store = old nodes + added nodes",
        "assumptions": COMMON_ASSUMPTIONS,
    },
    "C15": {
        "runs": {
            # KEEP=1: the versions are the in-process handles that have just been persisted (root = a name, or nil when emptied by Delete), not re-loaded trees
            "quick": [H("HarnessC07a", b(N=2, K=2, MODE=m, KEEP=1)) for m in (1, 3)] + [H("HarnessC07a", b(N=3, K=1, MODE=1)), H("HarnessC07a", b(N=3, K=2, MODE=3)), H("HarnessC07a", b(N=3, K=2, MODE=3, CMPSCALE=3)), H("HarnessC07a", b(N=3, K=2, MODE=7)), H("HarnessC07a", b(N=4, K=3, MODE=8)), H("HarnessC07a", b(N=3, K=4, MODE=9)),
                      # directed: concrete 33-entry tree of height 5 (ruler layers), one symbolic modification (any key, any layer <= 5)
                      H("HarnessC07a", b(N=33, K=1, MODE=1, LRULER=1, CONCRETEKEYS=1, Lmax=5), sample_every=20, max_steps=20000000)] +
                     # CACHEMIX: the versions are written through a node cache; one side is opened through it (1: old, 2: new), the other without a cache
                     [H("HarnessC07a", b(N=33, K=1, MODE=1, LRULER=1, CONCRETEKEYS=1, Lmax=5, CACHEMIX=m), sample_every=20, max_steps=20000000) for m in (1, 2)] + [H("HarnessC07a", b(N=3, K=2, MODE=1, CACHEMIX=m)) for m in (1, 2)] +
                     # directed: a wide, gap-rich tree (alternating layers 0/5, height 3) that one symbolic insert grows to height 4
                     [H("HarnessC07a", b(N=16, K=1, MODE=1, LALT=5, CONCRETEKEYS=1, Lmax=5), sample_every=20, max_steps=20000000),
                      # ... and one whose gaps hold whole subtrees (every 8th key at layer 7, ruler layers <= 2 in between; height 5 -> 6): 2*D+2 holds here
                      H("HarnessC07a", b(N=64, K=1, MODE=1, LALT=7, LALTEVERY=8, LALTCAP=2, CONCRETEKEYS=1, Lmax=7), sample_every=50, max_steps=200000000)],
            "thorough": [H("HarnessC07a", b(N=3, K=2, MODE=1), sample_every=500), H("HarnessC07a", b(N=4, K=1, MODE=1), sample_every=500), H("HarnessC07a", b(N=3, K=3, MODE=3), sample_every=500), H("HarnessC07a", b(N=3, K=3, MODE=7), sample_every=500), H("HarnessC07a", b(N=4, K=2, MODE=7), sample_every=500)],
        },
        "must_reach": ["C15.difflinks-reads", "C15.diffiter-reads", "C15.cursor-reads", "C15.same-version-no-reads"],
        "bounds_statement": "same pairs as C07 (incl. KEEP and CACHEMIX); distinct names passed to Persist.Load during DiffLinks, DiffIter and StartDiff+NextEntry (counted from before StartDiff) against D = |reach(old) symmetric-difference reach(new)| (a solver-decided inequality per path)",
        "assumptions": COMMON_ASSUMPTIONS,
    },
    "C08": {
        "runs": {
            "quick": [H("HarnessC08a", b(K=4, CACHE=0), sample_every=200), H("HarnessC08a", b(K=4, CACHE=2), sample_every=200), H("HarnessC08a", b(K=2, CACHE=1), sample_every=200), H("HarnessC08a", b(N0=3, K=0, CACHE=1), sample_every=200)] +
                     # the v1marshaler decode paths: names of re-loaded, unmodified nodes (node.source) when persisted again
                     [H("HarnessC08a", b(N0=3, K=0, CACHE=c, FMT=f)) for f in (1, 2) for c in (0, 1)] + [H("HarnessC08a", b(K=3, CACHE=0, FMT=1)),
                      # no restart: the old version is re-read through the cache that holds the writer's own node objects, after a delete and an
                      # insert/update by another handle; the base got one insert in the middle (MID), see DESIGN 12.6
                      H("HarnessC08a", b(N0=4, LPAT=10, MID=1, K=0, CACHE=1, WRITERCACHE=1, DELFIRST=1, CONCRETEKEYS=1), sample_every=200)] +
                     # v1marshaler: equal contents give equal bytes/names whatever route built the nodes (the harness marshaler, like JSON, tells nil slices from empty ones)
                     [H("HarnessC04b", b(N=5, K=1, NOPS=2, HREQ=2, LPAT=p, FMT=1), sample_every=10) for p in (18, 6, 19, 63)] + [H("HarnessC04a", b(K=4, NOPS=3, FMT=1), sample_every=200)] + [H("HarnessC04b", {**b(N=3, K=k, NOPS=7, CACHE=1), "SEQ.h": q}, sample_every=20) for k, q in ((3, 605), (3, 615), (4, 6015))] + [H("HarnessC04a", b(K=4, NOPS=7, CACHE=1), sample_every=200)],
            "thorough": [H("HarnessC08a", b(K=4, CACHE=0), sample_every=200), H("HarnessC08a", b(K=3, CACHE=1)), H("HarnessC04a", b(K=5, NOPS=7, CACHE=1), sample_every=5000)],
        },
        "must_reach": ["C08.name-is-hash-of-bytes", "C08.bytes-are-canonical-encoding", "C08.reencode-same-root", "C08.child-names-are-names-of-written-nodes", "C08.root-name-is-name-of-a-written-node", "C08.same-root-name-same-contents", "C08.unmodified-load-persists-under-the-same-name", "C08.equal-contents-equal-root-name"],
        "bounds_statement": "every Store call of every history of <= K operations (incl. persist+reload, go-back and restart operations) and of the final persist; an old version re-read through a fresh cache and through the writer's own cache after another handle modified the tree",
        "assumptions": COMMON_ASSUMPTIONS,
    },
    "C09": {
        "runs": {
            "quick": [H("HarnessC04a", b(K=4, NOPS=3), sample_every=200), H("HarnessC04a", b(K=4, NOPS=3, CACHE=1), sample_every=200), H("HarnessC04a", b(K=3, NOPS=3, BF=3))] +
                     [H("HarnessC04b", b(N=5, K=1, NOPS=2, HREQ=2, LPAT=p)) for p in (18, 6, 19, 63)] + [H("HarnessC04a", {**b(K=k, NOPS=3), "SEQ.h": q}, sample_every=200) for k, q in ((5, 10),)] + [H("HarnessC04b", {**b(N=5, K=2, NOPS=3, HREQ=2, LPAT=p), "SEQ.h": q}, sample_every=20) for p in (18, 6, 19, 63) for q in (20, 21)] +
                     # scenario-directed: fixed operation sequences through a shared cache (0 insert, 1 delete, 2 persist+reload), keys/values/layers symbolic
                     [H("HarnessC04a", {**b(K=k, NOPS=3, CACHE=1), "SEQ.h": q}, sample_every=200) for k, q in ((6, 21020), (5, 2102), (7, 201020))] + [H("HarnessC04b", b(N=17, K=1, NOPS=2, Lmax=4, LRULER=1, CONCRETEKEYS=1), sample_every=10, max_steps=30000000)] +
                     # versions persisted after a failed and retried operation (the fault-injecting harness of C12)
                     # v1marshaler nodes (read back through the harness marshaler's parser): same shape clauses
                     [H("HarnessC04a", b(K=4, NOPS=3, FMT=1), sample_every=200)] + [H("HarnessC04b", b(N=5, K=1, NOPS=2, HREQ=2, LPAT=p, FMT=1), sample_every=10) for p in (18, 63)] +
                     # version branching: op 5 = persist and go back to the first persisted version (through the same cache), op 6 = persist and restart with an empty cache
                     [H("HarnessC04b", {**b(N=3, K=k, NOPS=7, CACHE=1), "SEQ.h": q}, sample_every=20) for k, q in ((3, 605), (3, 615), (4, 6015))] + [H("HarnessC04a", b(K=4, NOPS=7, CACHE=1), sample_every=200)] +
                     [H("HarnessC12a", b(N=3, PRE=0, F=3, OPMASK=3, NOPROBE=1), sample_every=100),
                      # height-3 ruler tree: a delete of the top key merges two levels down, every load position faulted
                      H("HarnessC12a", b(N=7, PRE=0, F=7, OPMASK=3, NOPROBE=1, CONCRETEKEYS=1, LRULER=1), sample_every=50)],
            "thorough": [H("HarnessC04b", b(N=5, K=1, NOPS=2, HREQ=2), sample_every=500), H("HarnessC04a", b(K=4, NOPS=3), sample_every=200), H("HarnessC04a", b(K=3, NOPS=3, BF=3)), H("HarnessC04a", b(K=5, NOPS=2), sample_every=2000),
                         H("HarnessC04b", b(N=33, K=1, NOPS=2, Lmax=5, LRULER=1, CONCRETEKEYS=1), sample_every=20, max_steps=60000000), H("HarnessC12a", b(N=3, PRE=0, F=5, OPMASK=3, NOPROBE=1), sample_every=500), H("HarnessC12a", b(N=15, PRE=0, F=12, OPMASK=3, NOPROBE=1, CONCRETEKEYS=1, LRULER=1, Lmax=3), sample_every=200)],
        },
        "must_reach": ["C09.size-after-failed-operation", "C09.shape-after-failed-operation", "C09.size-after-operation-under-fault", "C09.layers", "C09.ranges", "C09.no-empty-node", "C09.size"],
        "bounds_statement": "persisted version after every history of <= K operations (incl. going back to the first persisted version and restarting with an empty cache), and after operations that failed or succeeded under an injected fault; every reachable node decoded by an independent reader",
        "assumptions": COMMON_ASSUMPTIONS,
    },
    "C10": {
        "runs": {
            "quick": [H("HarnessC10a", b(N=3, S=2, MODE=m)) for m in (0, 1, 3, 5, 6)] + [H("HarnessC10b", b(N=3, MODE=m)) for m in (5, 6)] +
                     # CMPSCALE: the key type's Order returns -3/0/+3 (only the sign of a comparison is specified)
                     [H("HarnessC10a", b(N=3, S=2, MODE=0, CMPSCALE=3)), H("HarnessC10b", b(N=3, MODE=0, CMPSCALE=3))] + [H("HarnessC10a", b(N=2, S=3, MODE=m)) for m in (2, 4)] + [H("HarnessC10b", b(N=3, MODE=m)) for m in (0, 1, 2, 3)] +
                     # height-2 shapes with adjacent same-layer keys (nil links inside interior nodes)
                     [H(h, b(N=5, S=3, MODE=m, LPAT=p), sample_every=5) for h in ("HarnessC10a", "HarnessC10b") for m in (0, 1) for p in (66, 58, 147)] + [H("HarnessC10a", b(N=17, S=3, MODE=1, Lmax=4, LRULER=1, CONCRETEKEYS=1), sample_every=20, max_steps=30000000)],
            # (N=5,S=3 is 18225 paths and ran clean once, but takes over an hour of wall time on a loaded machine: not registered)
            "thorough": [H("HarnessC10a", b(N=5, S=2, MODE=m), sample_every=300) for m in (0, 1)] + [H("HarnessC10a", b(N=4, S=3, MODE=m), sample_every=100) for m in (0, 1)] + [H("HarnessC10a", b(N=3, S=5, MODE=0), sample_every=300)] +
                        [H("HarnessC10a", b(N=3, S=2, MODE=m)) for m in (2, 3, 4)] +
                        [H("HarnessC10b", b(N=5, MODE=m), sample_every=300) for m in (0, 1)] + [H("HarnessC10b", b(N=3, MODE=m)) for m in (2, 3, 4)] +
                        [H("HarnessC10a", b(N=4, S=3, MODE=0, BF=3)), H("HarnessC10b", b(N=4, MODE=1, BF=3))],
        },
        "must_reach": ["C10.start.entry-iff-inside", "C10.step.key", "C10.step.entry-iff-inside", "C10.seek.count", "C10.seek.entries-correct-ascending-ge-probe"],
        "bounds_statement": "trees of N ascending entries (all layer assignments; in memory, persisted+reloaded, persisted with the in-process handle kept, re-loaded through the writer's cache), never-populated and emptied trees; cursor placed by Min / Max / Ceil(symbolic probe), then S symbolic Forward/Backward steps with Get after each; SeekIter from a symbolic probe with ErrIterDone at every position",
        "assumptions": COMMON_ASSUMPTIONS,
    },
    "C12": {
        "runs": {
            "quick": [H("HarnessC12a", b(N=3, PRE=0, F=3)),
                      # directed: concrete height-2 base, one earlier insert on the same handle (dirty in-memory path), then insert/delete under faults
                      H("HarnessC12a", b(N=5, PRE=1, F=4, OPMASK=3, NOPROBE=1, CONCRETEKEYS=1, LRULER=1, **{"SEQ.pre": 0}), sample_every=500),
                      H("HarnessC12a", b(N=7, PRE=0, F=7, OPMASK=3, NOPROBE=1, CONCRETEKEYS=1, LRULER=1), sample_every=50),
                      # mixed residency on a height-3 tree: one successful symbolic insert/update after the re-load (its path is in memory, the rest still in the store), then a delete under every load/compare fault position
                      H("HarnessC12a", b(N=7, PRE=1, F=7, OPMASK=2, NOPROBE=1, CONCRETEKEYS=1, LRULER=1, **{"SEQ.pre": 0}), sample_every=500),
                      # cursor Min / Max (operations 7, 8) under every load fault, retried on the same cursor, on the height-3 tree
                      H("HarnessC12a", b(N=7, PRE=0, F=5, OPMASK=384, NOPROBE=1, CONCRETEKEYS=1, LRULER=1), sample_every=20),
                      # cursor Forward / Backward (operations 9, 10) from the entry a fault-free Ceil(k) found, under every load fault, retried on the same cursor
                      H("HarnessC12a", b(N=7, PRE=0, F=5, OPMASK=1536, NOPROBE=1, CONCRETEKEYS=1, LRULER=1), sample_every=20), H("HarnessC12a", b(N=3, PRE=0, F=3, OPMASK=1536, NOPROBE=1), sample_every=50),
                      # through a node cache that starts empty after the re-load: what a failed load leaves in the cache is met again by the reads that follow
                      H("HarnessC12a", b(N=3, PRE=0, F=3, CACHE=1, OPMASK=127, NOPROBE=1), sample_every=200)],
            # (N=3,PRE=1,F=4 did not finish within 25 minutes together with the rest: not registered)
            "thorough": [H("HarnessC12a", b(N=3, PRE=0, F=5), sample_every=1000), H("HarnessC12a", b(N=2, PRE=1, F=3), sample_every=1000)],
        },
        "must_reach": ["C12.contents-unchanged", "C12.size-unchanged", "C12.retry-result", "C12.contents-after-retry", "C12.retried-navigation-position", "C12.retried-step-position", "C12.readable-after-error"],
        "bounds_statement": "tree of N ascending entries persisted and re-loaded (every node behind a Load), PRE successful modifications (dirty in-memory path above persisted children), then one of Insert/Delete/Get/Iter/Clone/Cursor(Ceil,Forward,Backward)/DiffIter/Cursor.Min/Cursor.Max/one Cursor.Forward or Backward step from the entry Ceil(k) found, with a fault at the n-th Persist.Load or the n-th KeyCompare call of that operation (n < F); after an error: Size, Height, full Iter, Get(probe) against the pre-operation model, then the same call retried without the fault",
        "outside": ["faults in Marshal (only reached from MakeRoot with this key type)", "two simultaneous faults", "panics raised by validateNode when KeyCompare fails (the statement is about calls that return an error)"],
        "assumptions": COMMON_ASSUMPTIONS,
    },
    "C13": {
        "runs": {
            "quick": [H("HarnessC13a", b(N=3, B=1, RELOAD=1)), H("HarnessC13a", b(N=3, B=1, RELOAD=0)), H("HarnessC13a", b(N=2, B=2, RELOAD=0)), H("HarnessC13a", b(N=2, B=2, RELOAD=1))] + [H("HarnessC13a", b(N=20, B=1, RELOAD=1, ASC=1, Lmax=4, LRULER=1, CONCRETEKEYS=1), sample_every=10, max_steps=30000000)] +
                     # the v1marshaler node format, both decode paths (a re-loaded node must still know the name it was loaded from)
                     [H("HarnessC13a", b(N=3, B=1, RELOAD=1, FMT=f)) for f in (1, 2)],
            "thorough": [H("HarnessC13a", b(N=3, B=2, RELOAD=1, FMT=f), sample_every=200) for f in (1, 2)] + [H("HarnessC13a", b(N=3, B=2, RELOAD=1), sample_every=200), H("HarnessC13a", b(N=3, B=1, RELOAD=0)), H("HarnessC13a", b(N=4, B=1, RELOAD=1), sample_every=200)],
        },
        "must_reach": ["C13.unmodified-clone-no-writes", "C13.written-is-reachable", "C13.rewrite-only-in-range", "C13.write-count", "C13.clean-implies-unchanged", "C13.clone-clean-implies-unchanged"],
        "bounds_statement": "V0 = N arbitrary inserts, persisted (re-loaded or not), then B symbolic modifications (no-ops included), then the second persist's Store log; binary format, and (FMT) both v1marshaler decode paths",
        "assumptions": COMMON_ASSUMPTIONS,
    },
    "C16": {
        "runs": {
            "quick": [H("HarnessC16a", b(N=5), sample_every=200), H("HarnessC16a", b(N=4, BF=3))] + [H("HarnessC16a", b(N=40, Lmax=5, LRULER=1, CONCRETEKEYS=1), sample_every=20, max_steps=30000000)] +
                     # KEEP=1: the operation runs on the in-process handle just persisted (root is a name, nothing in memory: the count includes the top node);
                     # Lmax=4 gives a top node with two keys, so deleting one of them keeps the height
                     [H("HarnessC16a", b(N=40, Lmax=lm, LRULER=1, CONCRETEKEYS=1, KEEP=1), sample_every=20, max_steps=30000000) for lm in (4, 5)] + [H("HarnessC16a", b(N=4, KEEP=1), sample_every=100), H("HarnessC16a", b(N=3, GET2=1), sample_every=200)],
            "thorough": [H("HarnessC16a", b(N=4, GET2=1), sample_every=1000), H("HarnessC16a", b(N=6), sample_every=2000), H("HarnessC16a", b(N=5, KEEP=1), sample_every=500), H("HarnessC16a", b(N=4, BF=3)), H("HarnessC16a", b(N=70, Lmax=6, LRULER=1, CONCRETEKEYS=1, KEEP=1), sample_every=50, max_steps=60000000)],
        },
        "must_reach": ["C16.get-reads-path", "C16.insert-reads-two-paths", "C16.delete-reads-two-paths", "C16.loadmast-reads-top-only", "C16.clone-after-op-reads-top-only", "C16.cursor-after-op-reads-top-only", "C16.get-after-op-reads-path"],
        "bounds_statement": "persisted trees of N ascending entries (all layer assignments, heights 0..2; directed trees of height 4..6), cache-less; one Get/Insert/Delete with a symbolic key, on a clone of the re-loaded tree or (KEEP) on the in-process handle just persisted, whose reads include the top node; then Clone, Cursor and a second Get (another symbolic key) on the handle the operation left behind (in-memory path nodes above persisted children)",
        "assumptions": COMMON_ASSUMPTIONS,
    },
    "C19": {
        "runs": {
            "quick": [H("HarnessC19a", b(N=4, L=4), sample_every=100), H("HarnessC19a", b(N=3, L=3, BF=3)), H("HarnessC19a", b(N=4, L=3, FMT=1), sample_every=20), H("HarnessC19a", b(N=4, L=3, FMT=2), sample_every=20),
                      # a root without a top node (only the format clause applies); a loader that shares the writer's warm node cache
                      H("HarnessC19a", b(N=0, L=3)), H("HarnessC19a", b(N=1, L=5), sample_every=20), H("HarnessC19a", b(N=2, L=6), sample_every=100), H("HarnessC19a", b(N=4, L=3, CACHE=1), sample_every=50), H("HarnessC19a", b(N=3, L=3, CACHE=1, FMT=1), sample_every=20)] +
                     # the same perturbations on a root whose recorded Size is arbitrary as well (any 64-bit value, 0 included)
                     [H("HarnessC19a", b(N=3, L=4, SIZEPERT=1), sample_every=100), H("HarnessC19a", b(N=3, L=3, SIZEPERT=1, FMT=1), sample_every=50)],
            "thorough": [H("HarnessC19a", b(N=4, L=4, SIZEPERT=1), sample_every=1000), H("HarnessC19a", b(N=5, L=5), sample_every=3000), H("HarnessC19a", b(N=3, L=3, BF=3)), H("HarnessC19a", b(N=5, L=3, CACHE=1), sample_every=3000), H("HarnessC19a", b(N=5, L=3, FMT=1), sample_every=1000), H("HarnessC19a", b(N=5, L=3, FMT=2), sample_every=1000)],
        },
        "must_reach": ["C19.rejected.unknown-format", "C19.rejected.unknown-format-empty-root", "C19.rejected.layer-below-height", "C19.rejected.top-missing", "C19.rejected.count-mismatch", "C19.rejected.not-ascending", "C19.rejected.not-ascending-under-configured-order", "C19.rejected.tie-under-configured-order", "C19.rejected.undecodable"],
        "bounds_statement": "correctly persisted tree of N ascending symbolic entries, then one perturbation: unknown NodeFormat (also on a root without a top node, and with the loader sharing the writer's warm cache); symbolic Height (<=4); missing top node; well-formed top node with one value too many / one link too many / two adjacent keys swapped; loader KeyCompare reversed; top node replaced by an arbitrary undecodable buffer of <= L symbolic bytes each < 10 (single-byte varints); SIZEPERT: each of these combined with an arbitrary recorded Size",
        "outside": ["BranchFactor perturbation (the symbolic key type's layer does not depend on the branch factor; integer layers are covered in C14)", "buffers longer than L or with multi-byte varints"],
        "assumptions": COMMON_ASSUMPTIONS,
    },
    "C14": {
        "runs": {
            "quick": [H("HarnessC14h", {"X": 0})] + [H("HarnessC14a", {"NK": n, "Lmax": 2}) for n in (0, 1, 2, 3)] + [H("HarnessC14a", {"NK": n, "Lmax": 2, "NILV": 1}) for n in (1, 2, 3)] + [H("HarnessC14b", b(N=3))] +
                     [H("HarnessC14c", {"BF": 2, "VMAX": 0, "SIGNED": 0}), H("HarnessC14c", {"BF": 4, "VMAX": 0, "SIGNED": 0}), H("HarnessC14c", {"BF": 16, "VMAX": 0, "SIGNED": 0}),
                      H("HarnessC14c", {"BF": 16, "VMAX": 0, "SIGNED": 1}),
                      H("HarnessC14c", {"BF": 3, "VMAX": 2187, "SIGNED": 0}), H("HarnessC14c", {"BF": 10, "VMAX": 100000, "SIGNED": 0}), H("HarnessC14c", {"BF": 3, "VMAX": 729, "SIGNED": 1}),
                      H("HarnessC14d", {"X": 0}, conc_bound=256), H("HarnessC14d2", {"BF": 16}, conc_bound=256), H("HarnessC14d2", {"BF": 2}, conc_bound=256),
                      H("HarnessC14e", {"X": 0}), H("HarnessC14f", {"X": 0}), H("HarnessC14g", {"X": 0})],
            "thorough": [H("HarnessC14a", {"NK": n, "Lmax": 2}) for n in (0, 1, 2, 3, 4)] + [H("HarnessC14b", b(N=4))] +
                     [H("HarnessC14c", {"BF": f, "VMAX": 0, "SIGNED": 0}) for f in (2, 4, 8, 16)] + [H("HarnessC14c", {"BF": f, "VMAX": 0, "SIGNED": 1}, timeout_ms=30000) for f in (4, 8, 16)] +
                     [H("HarnessC14c", {"BF": 3, "VMAX": 3 ** 9, "SIGNED": 0}), H("HarnessC14c", {"BF": 5, "VMAX": 5 ** 7, "SIGNED": 0}), H("HarnessC14c", {"BF": 6, "VMAX": 6 ** 6, "SIGNED": 0}),
                      H("HarnessC14c", {"BF": 7, "VMAX": 7 ** 6, "SIGNED": 0}), H("HarnessC14c", {"BF": 10, "VMAX": 10 ** 6, "SIGNED": 0}), H("HarnessC14c", {"BF": 3, "VMAX": 3 ** 7, "SIGNED": 1}),
                      H("HarnessC14d", {"X": 0}, conc_bound=256)] + [H("HarnessC14d2", {"BF": f}, conc_bound=256) for f in (2, 3, 4, 16)] +
                     [H("HarnessC14e", {"X": 0}), H("HarnessC14f", {"X": 0}), H("HarnessC14g", {"X": 0})],
        },
        "must_reach": ["C14.binary-layout", "C14.decode-is-inverse", "C14.v1marshaler-passes-bare-Node", "C14.uintLayer", "C14.intLayer", "C14.crc-table-is-ECMA", "C14.crc-step", "C14.blobLayer", "C14.stringLayer",
                       "C14.length-prefix-is-uvarint", "C14.compare-sign", "C14.compare-mismatch-errors", "C14.default-bf-16", "C14.default-format-binary", "C14.golden-node-bytes", "C14.golden-node-name", "C14.golden-uintLayer", "C14.golden-loads"],
        "bounds_statement": "leaf differential harnesses: marshalMastNode vs an independent encoder and unmarshalMastNode as its inverse for nodes of NK entries and every nil/non-nil link pattern (and every subset of untyped-nil values); the length prefix vs unsigned LEB128 for every length below 2^31; uintLayer/intLayer vs 'largest e with bf^e | v' over all 64-bit v for bf in {2,4,8,16} (full unrolling, every exit path) and over v < VMAX for bf in {3,5,6,7,10}; CRC table vs the bitwise ECMA polynomial (256 concrete entries), the table-driven update step vs the bitwise LFSR for any 64-bit state and byte, blob/string layers for every 1-byte key; DefaultKeyCompare for int/int64/uint/uint64 (all 64-bit values), string/[]byte of length 0..2, mismatched types; NewRoot/NewInMemory defaults for a symbolic BranchFactor; frozen reference vectors",
        "outside": ["v1marshaler bytes under the default JSON marshaler (encoding/json is not encodable): only the value handed to the marshaler is checked", "non-power-of-two branch factors beyond v < VMAX (64-bit division chains are out of the solvers' reach; see DESIGN 5)", "CRC inputs longer than one byte other than through the one-step lemma; inputs >= 64 bytes (slicing-by-8 path)", "the BLAKE2b bits (one published test vector only)"],
        "assumptions": COMMON_ASSUMPTIONS,
    },
    "C17": {
        "runs": {
            "quick": [H("HarnessC17a", {"LMAX": 3}, **FILEPKG), H("HarnessC17a", {"LMAX": 3, "R": 2}, **{**FILEPKG, "sample_every": 3})],
            "thorough": [H("HarnessC17a", {"LMAX": 24}, **FILEPKG), H("HarnessC17a", {"LMAX": 8, "R": 2}, **{**FILEPKG, "sample_every": 10}), H("HarnessC17a", {"LMAX": 4, "R": 3}, **{**FILEPKG, "sample_every": 40})],
        },
        "must_reach": ["C17.load-after-cut-is-notfound-or-complete", "C17.success-is-complete", "C17.restore-repairs"],
        "bounds_statement": "real persist/file Store and Load over a symbolic file-system model: node of 0..LMAX symbolic bytes; the store is cut by a crash at every step (before create, after create, after each byte, before/after rename) or by a write error after every byte count; then restart and Load; R such cut attempts in a row (R <= 3), each with its own symbolic cut point; then a healthy Store and Load. Natively a crash is a child process killed by the kernel at RLIMIT_FSIZE (SIGXFSZ at default disposition)",
        "outside": ["power-loss semantics (unsynced data lost after rename): the model's crash is a process crash", "payloads longer than LMAX (the store's own I/O does not depend on content)"],
        "assumptions": COMMON_ASSUMPTIONS + ["file-system model: os.Stat/ReadFile/WriteFile/CreateTemp/Rename/Remove and (*os.File).Write/Close/Sync/Name; WriteFile is create+write+close and not atomic, Rename is atomic, CreateTemp yields a fresh name in the given directory; filepath.Join of symbolic components is plain concatenation (the node-name alphabet has no separators)",
                                                "native replay: crashes and short writes are produced by the real kernel (RLIMIT_FSIZE; crash = child process killed at the limit); fault points the kernel cannot be asked for are skipped in translator validation"],
    },
    "C18": {
        "runs": {
            "quick": [H("HarnessC18m", {"LMAX": 2}, sched=True, preempt=3, race=True, sample_every=5), H("HarnessC18f", {"LMAX": 2}, **FILEPKG), H("HarnessC18s", {"LMAX": 2}, **S3PKG),
                      # file backend, two goroutines storing the same node under every schedule within the preemption bound (every file-system mutation is a scheduling point)
                      H("HarnessC18f", {"LMAX": 1, "SCEN": 5}, **{**FILEPKG, "sched": True, "preempt": 3, "no_native": True, "sample_every": 50})],
            "thorough": [H("HarnessC18m", {"LMAX": 8}, sched=True, preempt=12, race=True, sample_every=20), H("HarnessC18f", {"LMAX": 16}, **{**FILEPKG, "sample_every": 20}), H("HarnessC18s", {"LMAX": 12}, **{**S3PKG, "sample_every": 10})],
        },
        "must_reach": ["C18.mem.roundtrip", "C18.mem.missing-name-errors", "C18.mem.roundtrip-after-concurrent-stores", "C18.mem.roundtrip-two-names",
                       "C18.file.roundtrip", "C18.file.missing-name-errors", "C18.file.read-error-returned",
                       "C18.s3.roundtrip", "C18.s3.put-addresses-prefix+name-in-bucket", "C18.s3.get-addresses-prefix+name-in-bucket", "C18.s3.put-error-returned", "C18.s3.get-error-returned", "C18.s3.body-read-error-returned"],
        "bounds_statement": "for each backend: symbolic name of 1..2 characters from the node-name alphabet, symbolic payload of 0..LMAX bytes; load before any write, store, load, store again, load; second (possibly equal) name; in-memory: two goroutines storing the same node under every schedule within the preemption bound, with happens-before race detection; file: Stat/ReadFile/CreateTemp/Rename/Close failing, two goroutines storing the same node under every schedule within the preemption bound; S3: fake client recording Bucket/Key/Body, symbolic bucket and prefix, client and body-read errors, GetObject reporting ContentLength and streaming the body in pieces of a symbolic size",
        "outside": ["the real AWS client and network", "the real kernel file system (model; kernel used in native replay)", "payloads beyond LMAX bytes"],
        "assumptions": COMMON_ASSUMPTIONS,
    },
    "C03": {
        "runs": {
            "quick": [H("HarnessC03a", b(N=3, CACHE=0), sched=True, preempt=1, no_native=True), H("HarnessC03a", b(N=3, CACHE=1), sched=True, preempt=0, no_native=True), H("HarnessC03b", b(N=3))] +
                     # directed: 65 dirty nodes (> the 40-slot gate), one failing Store chosen symbolically, three deterministic schedules
                     [H("HarnessC03a", b(N=65, CACHE=0, LRULER=1, CONCRETEKEYS=1, Lmax=6), policy=pol, no_native=True, conc_bound=128, max_steps=100000000, native_sweep=("failkey", 66)) for pol in ("first", "rr", "last")],
            "thorough": [H("HarnessC03a", b(N=3, CACHE=0), sched=True, preempt=2, no_native=True, sample_every=5000), H("HarnessC03a", b(N=4, CACHE=0), sched=True, preempt=1, no_native=True, sample_every=5000),
                         H("HarnessC03a", b(N=3, CACHE=1), sched=True, preempt=1, no_native=True, sample_every=5000), H("HarnessC03b", b(N=5), sample_every=100)],
        },
        "extra_labels": ["deadlock", "nontermination"],
        "must_reach": ["C03.returned-root-is-complete", "C03.no-write-in-flight-at-return", "C03.store-failure-is-reported", "C03.usable-after-error.iter", "C03.retry-root-is-complete", "C03.second-tree-root-is-complete", "C03.not-skipped-because-cached-for-another-store"],
        "bounds_statement": "MakeRoot of a dirty tree of N ascending entries (<= N+2 nodes, far below the 40-slot gate) on a store whose Store calls yield to the scheduler between start and completion; the Store of the node starting with a chosen key fails (or none); every order of the synchronisation steps of the flushing goroutine, the dispatcher and the workers within the preemption bound; then the tree is read and MakeRoot retried without faults; second configuration: one cache shared by two stores with different prefixes",
        "outside": ["gate saturation (> 40 dirty nodes) under schedule exploration (covered only by three deterministic schedules on one 65-node tree)", "more preemptions than the bound", "more than one failing Store"],
        "assumptions": COMMON_ASSUMPTIONS + ["scheduler: context switches only at synchronisation operations (channel send/receive/close, mutex lock, WaitGroup wait/done, goroutine start/exit) and at the harness yield inside Persist.Store; context-bounded: at most `preempt` switches away from a goroutine that could have continued",
                                                "sampled-path native validation is off for the scheduled runs (the native scheduler is not controllable); counterexamples are still replayed natively (the listed defects do not depend on the schedule)"],
    },
    "C11": {
        "runs": {
            "quick": [H("HarnessC11a", b(N=5, OPS=1, MODE=m, KINDS=14, HREQ=2, LPAT=63), race=True, policy="rr", no_native=True) for m in (0, 1)] +
                     [H("HarnessC11a", b(N=3, OPS=1, MODE=m, KINDS=15, HREQ=-1), race=True, policy="rr", no_native=True) for m in (0, 2)] +
                     # a base that is not an ascending build: one more symbolic insert anywhere before persisting (MID=1) (splits in the
                     # middle leave nodes with spare array capacity as left siblings), then both goroutines delete
                     [H("HarnessC11a", b(N=4, OPS=1, MODE=0, KINDS=4, HREQ=1, LPAT=10, MID=1), race=True, policy="rr", no_native=True, sample_every=50)] +
                     # after a "restart": the shared cache fills with nodes decoded from the store (not the writer's objects), in each node format
                     [H("HarnessC11a", b(N=3, OPS=1, MODE=0, KINDS=15, HREQ=-1, FMT=f, FRESHCACHE=1), race=True, policy="rr", no_native=True, sample_every=200) for f in (0, 1, 2)] +
                     # two second-generation clones (clones of a clone of a loaded tree with one un-flushed modification)
                     [H("HarnessC11a", b(N=2, OPS=1, MODE=3, KINDS=6, HREQ=-1), race=True, policy="rr", no_native=True, sample_every=500)],
            "thorough": [H("HarnessC11a", b(N=5, OPS=1, MODE=m, KINDS=12, HREQ=1, LPAT=28, MID=1), race=True, policy="rr", no_native=True, sample_every=1000) for m in (0, 1)] + [H("HarnessC11a", b(N=5, OPS=1, MODE=m, KINDS=14, HREQ=2, LPAT=p), race=True, policy=pol, no_native=True, sample_every=1000) for m in (0, 1) for p in (63, 57) for pol in ("rr", "last")] +
                        [H("HarnessC11a", b(N=3, OPS=1, MODE=m, KINDS=15, HREQ=-1), race=True, policy="last", no_native=True, sample_every=1000) for m in (0, 1, 2)] +
                        [H("HarnessC11a", b(N=2, OPS=2, MODE=0, KINDS=10, HREQ=-1), race=True, policy="rr", no_native=True, sample_every=1000)] +
                        [H("HarnessC11a", b(N=3, OPS=1, MODE=0, KINDS=14, HREQ=-1, LPAT=9), race=True, sched=True, preempt=1, no_native=True, sample_every=5000)],
        },
        "extra_labels": ["data-race"],
        "must_reach": ["C11.g1.behaves-as-if-alone", "C11.g2.behaves-as-if-alone", "C11.g1.op-result"],
        "bounds_statement": "two goroutines, each owning one tree (both loaded from one persisted root through one shared cache -- the writer's, or an empty one that fills by decoding, in each node format; a loaded tree and its clone; an in-memory tree and its clone; two clones of a clone of a modified loaded tree) over a mutex-protected store and cache; base tree of N ascending entries (height 2 at N=5 for the listed layer patterns); OPS symbolic operations each (Get/Insert/Delete/MakeRoot) then a full Iter; every heap cell access is checked by a vector-clock happens-before detector; per-goroutine results compared with a sequential model",
        "outside": ["more than two goroutines or more than OPS operations each", "races inside the real ARC cache or the Go runtime", "interleavings are those of the listed deterministic scheduling policies (round-robin / run-to-block) plus context-bounded exploration where stated: a race is reported when two conflicting accesses are unordered by happens-before in an explored execution"],
        "assumptions": COMMON_ASSUMPTIONS + ["race = two accesses to one heap cell (struct field, slice element, variable), at least one a write, by different goroutines, unordered by the happens-before relation built from go statements, channel operations, Mutex, WaitGroup and Once (vector clocks)",
                                                "race findings are confirmed natively with `go test -race` on the same harness and inputs when reported"],
    },
}
