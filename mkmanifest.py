#!/usr/bin/env python3
"""Regenerates MANIFEST.json from checks.py (claimed properties) and NA (unclaimed, with reasons)."""
import json, sys
sys.path.insert(0, '/verif')
from checks import PROPERTIES
props = [json.loads(l) for l in open('/verif/properties.jsonl')]
try:
    from checks import NOT_APPLICABLE
except ImportError:
    NOT_APPLICABLE = {}
checks = []
na = []
for p in props:
    pid = p['id']
    if pid in PROPERTIES:
        pr = PROPERTIES[pid]
        c = {
            "property_id": pid,
            "quick_cmd": "./check %s --tier quick" % pid,
            "thorough_cmd": "./check %s --tier thorough" % pid,
            "evidence_file": "/verif/evidence/%s.json" % pid,
            "replay_cmd_template": "./check %s --replay {path}" % pid,
            "engine": "symex",
            "level_claimed": {
                "category": pr.get("level", "model_checking"),
                "text": pr.get("level_text", "bounded symbolic model checking of the real code: the SSA of /repo's current source is executed symbolically from in-package harnesses; every assertion is decided by an SMT query over all inputs on the path (PC and not A), paths are enumerated exhaustively within the stated bounds; counterexamples are replayed natively before being reported. ") + pr.get("bounds_statement", ""),
                "design_ref": "DESIGN.md section 6 (%s)" % pid,
            },
            "level_note": pr.get("level_note", "Trusted: the symbolic interpreter (validated on every run against native executions of sampled paths), z3, the stubs listed in evidence.assumptions (hash injectivity, fmt/reflect intrinsics, harness marshaler and caches). Bounded: nothing is claimed outside the bounds in evidence.coverage.bounds_statement."),
            "technique": pr.get("technique", "symbolic execution of go/ssa + SMT (z3 4.8.12; sampled paths re-decided by z3 5.1.0 and cvc5), bounded, native replay"),
        }
        checks.append(c)
    else:
        na.append({"property_id": pid, "reason": NOT_APPLICABLE.get(pid, "check under construction in this session (harness not yet registered)")})
m = {
    "version": 1,
    "setup_cmd": "cd /verif/engine && GOFLAGS=-mod=mod GOPROXY=off GOSUMDB=off GOTOOLCHAIN=local go build -o symex .",
    "hooks": {"guard": "verif", "enable": "none needed: harnesses are injected by go/packages overlays (symbolic run) and go test -overlay (native replay); /repo carries no hook code",
              "baseline_off_cmd": "cd /repo && GOFLAGS=-mod=mod go test -vet=off -count=1 -timeout 25m ./...", "source_commits": [], "add_only": True},
    "engines": [{"name": "symex", "path": "engine/", "serves_properties": [c["property_id"] for c in checks],
                 "kind_free_text": "own symbolic executor for go/ssa (x/tools v0.29.0) with SMT back end (z3 4.8.12 pipe, z3 5.1.0 fallback, cross-solver replay of sampled path transcripts through z3 5.1.0 and cvc5 1.0), DFS by re-execution over 16 workers, learnt-fact pruning, happens-before scheduler, native replay through go test -overlay"}],
    "checks": checks,
    "not_applicable": na,
    "notes": "All checks: ./check <id> --tier quick|thorough. Exit 0 = held within bounds (KNOWN-FINDING lines for defects listed open in known_findings.json); exit 1 + VIOLATION line = reproduced counterexample; exit 3 = the machinery could not complete the bound (never reported as success).",
}
json.dump(m, open('/verif/MANIFEST.json', 'w'), indent=1)
print(len(checks), "checks;", len(na), "not applicable")
