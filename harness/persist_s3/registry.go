package s3

var verifHarnesses = map[string]func(){
	"HarnessC18s": HarnessC18s,
}
