package s3

// Harness vocabulary: native side (replay of solver models against the
// natively compiled real code). Selected instead of verif_sym.go by the
// go test -overlay that the check driver writes.

import (
	"encoding/base64"
	"encoding/binary"
	"encoding/hex"
	"errors"
	"fmt"
	"os"
	"os/exec"
	"os/signal"
	"path/filepath"
	"runtime"
	"strconv"
	"strings"
	"syscall"
	"unsafe"

	blake2b "github.com/minio/blake2b-simd"
)

type verifVector struct {
	Harness string           `json:"harness"`
	Bounds  map[string]int64 `json:"bounds"`
	Nondet  []uint64         `json:"nondet"`
	Names   []string         `json:"names"`
	Layers  [][2]uint64      `json:"layers"`
	Sched   []uint64         `json:"sched"`
	Expect  []string         `json:"expect"`
	Own     []string         `json:"own"`
}

func vrOwns(label string) bool {
	if vr.vec == nil || len(vr.vec.Own) == 0 {
		return true
	}
	for _, p := range vr.vec.Own {
		if strings.HasPrefix(label, p) {
			return true
		}
	}
	return false
}

type verifStop struct{ why string }

var vr struct {
	vec      *verifVector
	pos      int
	events   []string
	classes  []string // classes whose condition held at the failing assertion
	pending  []string
	failed   string
	diverged string
}

func vrReset(v *verifVector) {
	vr.vec = v
	vr.pos = 0
	vr.events = nil
	vr.classes = nil
	vr.pending = nil
	vr.failed = ""
	vr.diverged = ""
	vfsReset()
}

func vrNext(name string) uint64 {
	if vr.pos >= len(vr.vec.Nondet) {
		// beyond the model: unconstrained by the path, any value will do
		vr.pos++
		return 0
	}
	if vr.pos < len(vr.vec.Names) && vr.vec.Names[vr.pos] != name && vr.diverged == "" {
		vr.diverged = fmt.Sprintf("nondet #%d is %q natively but %q symbolically", vr.pos, name, vr.vec.Names[vr.pos])
	}
	v := vr.vec.Nondet[vr.pos]
	vr.pos++
	return v
}

func verifNondetU64(name string) uint64 { return vrNext(name) }
func verifNondetInt(name string) int    { return int(vrNext(name)) }
func verifNondetI64(name string) int64  { return int64(vrNext(name)) }
func verifNondetU8(name string) uint8   { return uint8(vrNext(name)) }
func verifNondetBool(name string) bool  { return uint8(vrNext(name)) != 0 }
func verifChoose(name string, n int) int {
	v := int(vrNext(name))
	if v < 0 || v >= n {
		panic(verifStop{"assume-false"})
	}
	return v
}
func verifBound(name string) int {
	v, ok := vr.vec.Bounds[name]
	if !ok {
		panic("bound not set: " + name)
	}
	return int(v)
}
func verifAssume(cond bool) {
	if !cond {
		panic(verifStop{"assume-false"})
	}
}
func verifAssert(label string, cond bool) {
	classes := vr.pending
	vr.pending = nil
	b := 0
	if cond {
		b = 1
	}
	vr.events = append(vr.events, fmt.Sprintf("assert:%s=%d", label, b))
	if !cond && !vrOwns(label) {
		return // an assertion of another property: traced, not judged here
	}
	if !cond {
		vr.failed = label
		vr.classes = classes
		panic(verifStop{"assert-failed"})
	}
}
func verifClass(name string, cond bool) {
	if cond {
		vr.pending = append(vr.pending, name)
	}
}
func verifObserve(label string, v uint64) {
	vr.events = append(vr.events, fmt.Sprintf("observe:%s=%d", label, v))
}
func verifLayer(id uint64) uint8 {
	for _, l := range vr.vec.Layers {
		if l[0] == id {
			return uint8(l[1])
		}
	}
	return 0
}
func verifPanics(f func()) (panicked bool) {
	defer func() {
		if r := recover(); r != nil {
			if _, ok := r.(verifStop); ok {
				panic(r)
			}
			panicked = true
		}
	}()
	f()
	return false
}
func verifYield()        { runtime.Gosched() }
func verifSched(on bool) {}
func verifHashName(b []byte) string {
	d := blake2b.Sum256(b)
	return base64.RawURLEncoding.EncodeToString(d[:])
}
func verifIsNameOf(name string, b []byte) bool { return name == verifHashName(b) }
func verifStrEq(a, b string) bool              { return a == b }
func verifPutU64(b []byte, v uint64)           { binary.BigEndian.PutUint64(b, v) }
func verifGetU64(b []byte) uint64              { return binary.BigEndian.Uint64(b) }
func verifNote(s string)                       {}
func verifIte(c bool, a, b uint64) uint64 {
	if c {
		return a
	}
	return b
}
func verifIteB(c bool, a, b bool) bool {
	if c {
		return a
	}
	return b
}
func verifAnd(a, b bool) bool { return a && b }
func verifOr(a, b bool) bool  { return a || b }
func verifCmpU64(a, b uint64) int {
	if a < b {
		return -1
	}
	if a > b {
		return 1
	}
	return 0
}
func verifIfaceEq(a, b interface{}) bool { return verifDeepEq(a, b) }
func verifStrSame(a, b string) bool      { return a == b }
func verifNondetKey(name string) uint64  { return vrNext(name) }
func verifNondetVal(name string) uint64  { return vrNext(name) }
func verifErrHas(err error, s string) bool {
	return err != nil && strings.Contains(err.Error(), s)
}

// ---- file-system fault control (native side) ----
// Faults are realised with the real kernel: RLIMIT_FSIZE makes a write stop after k bytes
// (EFBIG with SIGXFSZ ignored = I/O error; SIGXFSZ fatal in a child process = crash).
// Faults the kernel cannot be asked for (a failing Stat, a crash between two system calls)
// end the replay as "native-unsupported": such vectors are skipped, not counted as agreement.

var vfs struct {
	dir       string
	crashAt   int
	werrCall  int
	werrAfter int
	crashed   bool
}

func vfsReset() {
	if vfs.dir != "" {
		os.RemoveAll(vfs.dir)
	}
	vfs.dir = ""
	vfs.crashAt, vfs.werrCall, vfs.werrAfter, vfs.crashed = -1, -1, 0, false
}

func verifNative() bool       { return true }
func verifFSCrashAt(step int) { vfs.crashAt = step }
func verifFSWriteError(call int, after int) {
	vfs.werrCall, vfs.werrAfter = call, after
	if call > 0 {
		panic(verifStop{"native-unsupported"})
	}
}
func verifFSFailOp(kind string, n int) {
	if n >= 0 {
		panic(verifStop{"native-unsupported"})
	}
}
func verifFSSteps() int { return 0 }
func verifFSDir() string {
	if vfs.dir == "" {
		d, err := os.MkdirTemp("", "verif-fs-")
		if err != nil {
			panic(err)
		}
		vfs.dir = d
	}
	return vfs.dir
}
func verifCrashed() bool { return vfs.crashed }

// vfsWithLimit runs f with RLIMIT_FSIZE = limit bytes and SIGXFSZ ignored.
func vfsWithLimit(limit int, f func()) {
	var old syscall.Rlimit
	syscall.Getrlimit(syscall.RLIMIT_FSIZE, &old)
	signal.Ignore(syscall.SIGXFSZ)
	syscall.Setrlimit(syscall.RLIMIT_FSIZE, &syscall.Rlimit{Cur: uint64(limit), Max: old.Max})
	defer func() {
		syscall.Setrlimit(syscall.RLIMIT_FSIZE, &old)
		signal.Reset(syscall.SIGXFSZ)
	}()
	f()
}

// vfsStoreChild is the body of the child process: store one node with the file
// size limited, SIGXFSZ left fatal (the process dies mid-write: a real crash).
func vfsStoreChild(store func(name string, b []byte) error) {
	limit, _ := strconv.Atoi(os.Getenv("VERIF_CHILD_LIMIT"))
	b, _ := hex.DecodeString(os.Getenv("VERIF_CHILD_BYTES"))
	// The Go runtime leaves SIGXFSZ ignored-in-effect (the write just fails with EFBIG and the caller's
	// error path runs); a crash is a process that stops *without* running anything further, so the
	// signal's disposition is put back to the default: rt_sigaction(SIGXFSZ, {SIG_DFL}, nil, 8). The
	// kernel then cuts the write at the limit and kills the process at the next byte.
	var act [4]uint64
	syscall.RawSyscall6(syscall.SYS_RT_SIGACTION, uintptr(syscall.SIGXFSZ), uintptr(unsafe.Pointer(&act[0])), 0, 8, 0, 0)
	syscall.Setrlimit(syscall.RLIMIT_FSIZE, &syscall.Rlimit{Cur: uint64(limit), Max: uint64(limit)})
	if err := store(os.Getenv("VERIF_CHILD_NAME"), b); err != nil {
		os.Exit(4)
	}
	os.Exit(0)
}

// vfsStore performs store(name,b) under the pending fault. nbytes is what one complete
// store writes; steps are: create (1), then one per byte.
func vfsStore(name string, b []byte, store func(name string, b []byte) error) (err error, crashed bool) {
	switch {
	case vfs.crashAt >= 0:
		c := vfs.crashAt
		vfs.crashAt = -1
		if c == 0 {
			// the model crashes at the first file-system *mutation*: a Store that finds the node
			// already there makes none and completes
			if _, serr := os.Stat(filepath.Join(vfs.dir, name)); serr == nil {
				return store(name, b), false
			}
			vfs.crashed = true
			return nil, true // crashed before anything happened
		}
		if c > len(b) {
			// a crash after the last byte but before the next system call cannot be arranged
			panic(verifStop{"native-unsupported"})
		}
		cmd := exec.Command(os.Args[0], "-test.run=^TestVerifChildStore$")
		cmd.Env = append(os.Environ(), "VERIF_CHILD_DIR="+vfs.dir, "VERIF_CHILD_NAME="+name,
			"VERIF_CHILD_BYTES="+hex.EncodeToString(b), "VERIF_CHILD_LIMIT="+strconv.Itoa(c-1))
		rerr := cmd.Run()
		if rerr == nil {
			return nil, false
		}
		if ee, ok := rerr.(*exec.ExitError); ok && ee.ExitCode() == 4 {
			return errors.New("store failed in child"), false
		}
		vfs.crashed = true
		return nil, true
	case vfs.werrCall == 0:
		vfs.werrCall = -1
		vfsWithLimit(vfs.werrAfter, func() { err = store(name, b) })
		return err, false
	}
	return store(name, b), false
}
func verifBoundOr(name string, def int) int {
	if v, ok := vr.vec.Bounds[name]; ok {
		return int(v)
	}
	return def
}
