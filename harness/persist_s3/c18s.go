package s3

import (
	"bytes"
	"context"
	"errors"
	"io"

	"github.com/aws/aws-sdk-go/aws"
	"github.com/aws/aws-sdk-go/aws/request"
	awss3 "github.com/aws/aws-sdk-go/service/s3"
)

var vctx = context.Background()

type fakeObj struct {
	bucket, key string
	body        []byte
}

// fakeS3 implements S3Interface and records what it is asked.
type fakeS3 struct {
	objs          []fakeObj
	failPut       bool
	failGet       bool
	failBody      bool
	chunk         int // > 0: GetObject reports ContentLength and streams the body in pieces of this size
	lastPutBucket string
	lastPutKey    string
	lastGetBucket string
	lastGetKey    string
	puts, gets    int
}

var errFake = errors.New("fake s3: injected error")

type failingBody struct{ n int }

func (f *failingBody) Read(p []byte) (int, error) { return 0, errFake }
func (f *failingBody) Close() error               { return nil }

func (f *fakeS3) find(bucket, key string) int {
	for i := range f.objs {
		if verifAnd(verifStrEq(f.objs[i].bucket, bucket), verifStrEq(f.objs[i].key, key)) {
			return i
		}
	}
	return -1
}

func (f *fakeS3) DeleteObjectWithContext(ctx aws.Context, in *awss3.DeleteObjectInput, opts ...request.Option) (*awss3.DeleteObjectOutput, error) {
	return &awss3.DeleteObjectOutput{}, nil
}

func (f *fakeS3) GetObjectWithContext(ctx aws.Context, in *awss3.GetObjectInput, opts ...request.Option) (*awss3.GetObjectOutput, error) {
	f.gets++
	f.lastGetBucket, f.lastGetKey = *in.Bucket, *in.Key
	if f.failGet {
		return nil, errFake
	}
	i := f.find(*in.Bucket, *in.Key)
	if i < 0 {
		return nil, errors.New("NoSuchKey")
	}
	if f.failBody {
		return &awss3.GetObjectOutput{Body: &failingBody{}}, nil
	}
	if f.chunk > 0 {
		// what a real GetObject gives: the object's size, and a body that arrives in pieces
		n := int64(len(f.objs[i].body))
		return &awss3.GetObjectOutput{ContentLength: &n, Body: &chunkBody{b: f.objs[i].body, chunk: f.chunk}}, nil
	}
	return &awss3.GetObjectOutput{Body: io.NopCloser(bytes.NewReader(f.objs[i].body))}, nil
}

// chunkBody delivers at most chunk bytes per Read (a network stream), then io.EOF.
type chunkBody struct {
	b          []byte
	pos, chunk int
}

func (c *chunkBody) Read(p []byte) (int, error) {
	if c.pos >= len(c.b) {
		return 0, io.EOF
	}
	n := c.chunk
	if n > len(p) {
		n = len(p)
	}
	if n > len(c.b)-c.pos {
		n = len(c.b) - c.pos
	}
	copy(p, c.b[c.pos:c.pos+n])
	c.pos += n
	return n, nil
}
func (c *chunkBody) Close() error { return nil }

func (f *fakeS3) PutObjectWithContext(ctx aws.Context, in *awss3.PutObjectInput, opts ...request.Option) (*awss3.PutObjectOutput, error) {
	f.puts++
	f.lastPutBucket, f.lastPutKey = *in.Bucket, *in.Key
	if f.failPut {
		return nil, errFake
	}
	body, err := io.ReadAll(in.Body)
	if err != nil {
		return nil, err
	}
	if i := f.find(*in.Bucket, *in.Key); i >= 0 {
		f.objs[i].body = body
	} else {
		f.objs = append(f.objs, fakeObj{*in.Bucket, *in.Key, body})
	}
	return &awss3.PutObjectOutput{}, nil
}

func symStr(tag string, minLen, maxLen int) string {
	nl := minLen + verifChoose(tag+".len", maxLen-minLen+1)
	nb := make([]byte, nl)
	for i := range nb {
		c := verifNondetU8(tag)
		isAlpha := verifOr(verifOr(verifAnd(c >= 'A', c <= 'Z'), verifAnd(c >= 'a', c <= 'z')), verifOr(verifAnd(c >= '0', c <= '9'), verifOr(c == '-', verifOr(c == '_', c == '/'))))
		verifAssume(isAlpha)
		nb[i] = c
	}
	return string(nb)
}

// C18 (S3 backend): objects are prefix+name in the configured bucket; bodies
// round-trip; client and body-read errors are returned.
func HarnessC18s() {
	fake := &fakeS3{}
	bucket := symStr("bucket", 1, 2)
	prefix := symStr("prefix", 0, 2)
	name := symStr("name", 1, 2)
	n := verifChoose("data.len", verifBound("LMAX")+1)
	b := make([]byte, n)
	for i := range b {
		b[i] = verifNondetU8("data")
	}
	p := NewPersist(fake, "http://endpoint", bucket, prefix)
	wantKey := prefix + name

	_, err := p.Load(vctx, name)
	verifAssert("C18.s3.missing-name-errors", err != nil)
	verifAssert("C18.s3.get-addresses-prefix+name-in-bucket", verifAnd(verifStrEq(fake.lastGetBucket, bucket), verifStrEq(fake.lastGetKey, wantKey)))

	switch verifChoose("scenario", 4) {
	case 0:
		fake.chunk = verifChoose("chunk", verifBound("LMAX")+1) // 0: one in-memory reader without ContentLength
		verifAssert("C18.s3.store.err", p.Store(vctx, name, b) == nil)
		verifAssert("C18.s3.put-addresses-prefix+name-in-bucket", verifAnd(verifStrEq(fake.lastPutBucket, bucket), verifStrEq(fake.lastPutKey, wantKey)))
		verifAssert("C18.s3.put-body-is-the-bytes", len(fake.objs) == 1 && verifStrEq(string(fake.objs[0].body), string(b)))
		got, err := p.Load(vctx, name)
		verifAssert("C18.s3.roundtrip", verifAnd(err == nil, verifStrEq(string(got), string(b))))
		verifAssert("C18.s3.store-again.err", p.Store(vctx, name, b) == nil)
		got, err = p.Load(vctx, name)
		verifAssert("C18.s3.roundtrip-after-rewrite", verifAnd(err == nil, verifStrEq(string(got), string(b))))
	case 1:
		fake.failPut = true
		verifAssert("C18.s3.put-error-returned", p.Store(vctx, name, b) != nil)
	case 2:
		verifAssert("C18.s3.store.err", p.Store(vctx, name, b) == nil)
		fake.failGet = true
		_, err := p.Load(vctx, name)
		verifAssert("C18.s3.get-error-returned", err != nil)
	case 3:
		verifAssert("C18.s3.store.err", p.Store(vctx, name, b) == nil)
		fake.failBody = true
		_, err := p.Load(vctx, name)
		verifAssert("C18.s3.body-read-error-returned", err != nil)
	}
}
