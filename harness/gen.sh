#!/bin/bash
# Regenerates the harness vocabulary of the persist/file and persist/s3 harness
# packages from the mast one (same functions, different package clause).
cd "$(dirname "$0")"
for spec in "persist_file file" "persist_s3 s3"; do
  set -- $spec
  for f in verif_sym.go verif_native.go replay_native_test.go; do
    sed "s/^package mast$/package $2/" mast/$f > $1/$f
  done
done
