package mast

// Harness library shared by the symbolic run (engine) and the native replay.
// Harness code avoids && / || / if on symbolic data where a term will do:
// every such branch forks the path; verifAnd/verifOr/verifIte build terms.

import (
	"context"
	"errors"
)

var vctx = context.Background()

// ---- keys with symbolic order and symbolic layer ----

type symKey struct{ id uint64 }

func (k symKey) Layer(branchFactor uint) uint8 { return verifLayer(k.id) }

// Order: -1/0/+1 times CMPSCALE (default 1). Only the sign of a comparison is specified; a key
// type whose Order returns a difference is as valid as one that returns -1/0/+1.
func (k symKey) Order(o Key) int {
	return verifCmpU64(k.id, o.(symKey).id) * verifBoundOr("CMPSCALE", 1)
}

var errSymCodec = errors.New("symcodec: bad input")

func symMarshal(i interface{}) ([]byte, error) {
	switch v := i.(type) {
	case nil:
		// an untyped nil element (Insert(ctx, key, nil)): like JSON, the marshaler has a spelling for it
		return []byte("null"), nil
	case symKey:
		b := make([]byte, 8)
		verifPutU64(b, v.id)
		return b, nil
	case uint64:
		b := make([]byte, 8)
		verifPutU64(b, v)
		return b, nil
	case []byte:
		// slice-typed (uncomparable) values: the bytes themselves (callers keep them non-empty)
		return v, nil
	case *uint64:
		// pointer-typed values (comparable by identity, equal by reflect.DeepEqual): the pointee
		b := make([]byte, 8)
		verifPutU64(b, *v)
		return b, nil
	case Node:
		// v1marshaler: the user marshaler encodes the bare Node
		// like JSON, the encoding tells a nil slice from an empty one (null vs [])
		flags := byte(0)
		if v.Key == nil {
			flags |= 1
		}
		if v.Value == nil {
			flags |= 2
		}
		b := []byte{'N', flags, byte(len(v.Key))}
		for _, k := range v.Key {
			kb, err := symMarshal(k)
			if err != nil {
				return nil, err
			}
			b = append(b, kb...)
		}
		b = append(b, byte(len(v.Value)))
		for _, x := range v.Value {
			vb, err := symMarshal(x)
			if err != nil {
				return nil, err
			}
			b = append(b, vb...)
		}
		b = append(b, byte(len(v.Link)))
		for _, l := range v.Link {
			s, _ := l.(string)
			b = append(b, byte(len(s)))
			b = append(b, s...)
		}
		return b, nil
	}
	return nil, errSymCodec
}

// symParseNode parses the Node encoding above.
func symParseNode(b []byte) (keys, vals [][]byte, links []string, ok bool) {
	if len(b) < 3 || b[0] != 'N' {
		return
	}
	pos := 2 // b[1]: nil-ness flags of the Key/Value slices
	nk := int(b[pos])
	pos++
	for i := 0; i < nk; i++ {
		if pos+8 > len(b) {
			return
		}
		keys = append(keys, b[pos:pos+8])
		pos += 8
	}
	if pos >= len(b) {
		return
	}
	nv := int(b[pos])
	pos++
	for i := 0; i < nv; i++ {
		if pos+8 > len(b) {
			return
		}
		vals = append(vals, b[pos:pos+8])
		pos += 8
	}
	if pos >= len(b) {
		return
	}
	nl := int(b[pos])
	pos++
	for i := 0; i < nl; i++ {
		if pos >= len(b) {
			return
		}
		l := int(b[pos])
		pos++
		if pos+l > len(b) {
			return
		}
		links = append(links, string(b[pos:pos+l]))
		pos += l
	}
	return keys, vals, links, pos == len(b)
}

func symUnmarshal(b []byte, out interface{}) error {
	switch p := out.(type) {
	case *stringNodeT:
		keys, vals, links, ok := symParseNode(b)
		if !ok {
			return errSymCodec
		}
		for _, k := range keys {
			p.Key = append(p.Key, k)
		}
		for _, v := range vals {
			p.Value = append(p.Value, v)
		}
		p.Link = links
		return nil
	case *Node:
		keys, vals, links, ok := symParseNode(b)
		if !ok {
			return errSymCodec
		}
		for _, k := range keys {
			p.Key = append(p.Key, symKey{verifGetU64(k)})
		}
		for _, v := range vals {
			p.Value = append(p.Value, verifGetU64(v))
		}
		for _, l := range links {
			if l == "" {
				p.Link = append(p.Link, nil)
			} else {
				p.Link = append(p.Link, l)
			}
		}
		return nil
	}
	if len(b) != 8 {
		return errSymCodec
	}
	switch p := out.(type) {
	case *symKey:
		p.id = verifGetU64(b)
		return nil
	case *uint64:
		*p = verifGetU64(b)
		return nil
	case **uint64:
		nv := new(uint64)
		*nv = verifGetU64(b)
		*p = nv
		return nil
	}
	return errSymCodec
}

func bytesCodecUnmarshal(b []byte, out interface{}) error {
	if p, ok := out.(*[]byte); ok {
		*p = append([]byte(nil), b...)
		return nil
	}
	return symUnmarshal(b, out)
}

// bytesCodecUnmarshalReuse decodes the way encoding/json does for slices: into the target's existing
// backing array when it has room. Harmless as long as every element is decoded into a fresh target.
func bytesCodecUnmarshalReuse(b []byte, out interface{}) error {
	if p, ok := out.(*[]byte); ok {
		*p = append((*p)[:0], b...)
		return nil
	}
	return symUnmarshal(b, out)
}

func symConfig(store Persist, cache NodeCache) *RemoteConfig {
	return &RemoteConfig{
		KeysLike:                symKey{},
		ValuesLike:              uint64(0),
		StoreImmutablePartsWith: store,
		Marshal:                 symMarshal,
		Unmarshal:               symUnmarshal,
		NodeCache:               cache,
	}
}

// ---- recording store ----

type vStore struct {
	prefix                     string
	names                      []string
	blobs                      [][]byte
	storeLog                   []string // every Store call, in completion order
	loadLog                    []string // every Load call
	failLoad                   func(n int, name string) bool
	failStore                  func(n int, name string) bool
	failStoreBytes             func(b []byte) bool
	started, completed, failed int
	nLoad                      int
	nStore                     int
	yieldInStore               bool
	checkConflicts             bool
	conflict                   bool // some name was stored twice with different bytes
}

var errVStoreMissing = errors.New("vstore: no such node")
var errVStoreFault = errors.New("vstore: injected fault")

func newVStore(prefix string) *vStore { return &vStore{prefix: prefix} }

func (s *vStore) find(name string) int {
	// syntactically identical name first: no solver involvement
	for i := range s.names {
		if verifStrSame(s.names[i], name) {
			return i
		}
	}
	for i := range s.names {
		if s.names[i] == name {
			return i
		}
	}
	return -1
}

func (s *vStore) Store(ctx context.Context, name string, b []byte) error {
	storeLock(s)
	defer storeUnlock(s)
	n := s.nStore
	s.nStore++
	s.started++
	if s.yieldInStore {
		storeUnlock(s)
		storeGate(s)
		storeLock(s)
	}
	if (s.failStore != nil && s.failStore(n, name)) || (s.failStoreBytes != nil && s.failStoreBytes(b)) {
		s.failed++
		s.completed++
		return errVStoreFault
	}
	defer func() { s.completed++ }()
	cp := make([]byte, len(b))
	copy(cp, b)
	s.storeLog = append(s.storeLog, name)
	if i := s.find(name); i >= 0 {
		if s.checkConflicts {
			s.conflict = verifOr(s.conflict, !verifStrEq(string(s.blobs[i]), string(cp)))
		}
		s.blobs[i] = cp
		return nil
	}
	s.names = append(s.names, name)
	s.blobs = append(s.blobs, cp)
	return nil
}

func (s *vStore) Load(ctx context.Context, name string) ([]byte, error) {
	storeLock(s)
	defer storeUnlock(s)
	n := s.nLoad
	s.nLoad++
	s.loadLog = append(s.loadLog, name)
	if s.failLoad != nil && s.failLoad(n, name) {
		return nil, errVStoreFault
	}
	i := s.find(name)
	if i < 0 {
		return nil, errVStoreMissing
	}
	cp := make([]byte, len(s.blobs[i]))
	copy(cp, s.blobs[i])
	return cp, nil
}

func (s *vStore) NodeURLPrefix() string { return s.prefix }

// ---- unbounded node cache ----

type vCache struct {
	keys   []string
	vals   []interface{}
	cap    int // 0 = unbounded; otherwise FIFO eviction
	frozen bool
}

func (c *vCache) idx(key interface{}) int {
	k := key.(string)
	for i := range c.keys {
		if verifStrSame(c.keys[i], k) {
			return i
		}
	}
	for i := range c.keys {
		if c.keys[i] == k {
			return i
		}
	}
	return -1
}
func (c *vCache) Add(key, value interface{}) {
	cacheLock(c)
	defer cacheUnlock(c)
	if c.frozen {
		return
	}
	if i := c.idx(key); i >= 0 {
		c.vals[i] = value
		return
	}
	c.keys = append(c.keys, key.(string))
	c.vals = append(c.vals, value)
	if c.cap > 0 && len(c.keys) > c.cap {
		c.keys = c.keys[1:]
		c.vals = c.vals[1:]
	}
}
func (c *vCache) Contains(key interface{}) bool {
	cacheLock(c)
	defer cacheUnlock(c)
	return c.idx(key) >= 0
}
func (c *vCache) Get(key interface{}) (interface{}, bool) {
	cacheLock(c)
	defer cacheUnlock(c)
	if i := c.idx(key); i >= 0 {
		return c.vals[i], true
	}
	return nil, false
}

// ---- reference map: association list with shadowing, evaluated as terms ----

type mEntry struct {
	k, v    uint64
	present bool
}

type symModel struct{ es []mEntry }

func (m *symModel) clone() *symModel {
	return &symModel{es: append([]mEntry(nil), m.es...)}
}
func (m *symModel) put(k, v uint64) { m.es = append(m.es, mEntry{k, v, true}) }
func (m *symModel) del(k uint64)    { m.es = append(m.es, mEntry{k, 0, false}) }

func (m *symModel) lookup(p uint64) (found bool, v uint64) {
	for _, e := range m.es {
		eq := e.k == p
		found = verifIteB(eq, e.present, found)
		v = verifIte(eq, e.v, v)
	}
	return
}

func (m *symModel) size() uint64 {
	var n uint64
	for i := range m.es {
		eff := m.es[i].present
		for j := i + 1; j < len(m.es); j++ {
			eff = verifAnd(eff, m.es[j].k != m.es[i].k)
		}
		n += verifIte(eff, 1, 0)
	}
	return n
}

// buildAscending inserts n entries with strictly ascending symbolic keys (symbolic
// layers and values). By canonical form (C04) this reaches every tree shape of n entries
// (not every state of the nodes' backing arrays: see MID below).
func buildAscending(tag string, t *Mast, md *symModel, n int) []uint64 {
	var ks []uint64
	for i := 0; i < n; i++ {
		var k, v uint64
		if verifBoundOr("CONCRETEKEYS", 0) == 1 {
			// directed run: the base tree is concrete (keys 4,8,12,...; the operations applied to it stay symbolic)
			k, v = uint64(4*(i+1)), uint64(i)
		} else {
			k, v = verifNondetKey("k"), verifNondetVal("v")
		}
		if i > 0 {
			verifAssume(ks[i-1] < k)
		}
		if pat := verifBoundOr("LPAT", -1); pat >= 0 {
			// restrict this run to one layer pattern: base-3 digits, least significant = first key
			d := pat
			for j := 0; j < i; j++ {
				d /= 3
			}
			verifAssume(verifLayer(k) == uint8(d%3))
		}
		if verifBoundOr("LRULER", 0) == 1 {
			// layers follow the ruler sequence 0,1,0,2,0,1,0,3,... (what the integer keys 1..n get at
			// branch factor 2), capped at Lmax: tall trees on a single build path
			l, j := 0, i+1
			for j%2 == 0 {
				l++
				j /= 2
			}
			if lm := verifBound("Lmax"); l > lm {
				l = lm
			}
			verifAssume(verifLayer(k) == uint8(l))
		}
		if hi := verifBoundOr("LALT", 0); hi > 0 {
			// alternating layers: every second key (2nd, 4th, ...) gets layer LALT, the others layer 0. With LALT
			// above the height the size allows, the top node is wide and every gap between its keys is a
			// chain of key-less nodes down to a one-entry leaf: growing such a tree puts a new key-less
			// node on top of every one of those (unchanged) chains
			// (LALTEVERY = e: every e-th key instead of every second; the keys in between get ruler layers capped at LALTCAP)
			every := verifBoundOr("LALTEVERY", 2)
			l := 0
			if (i+1)%every == 0 {
				l = hi
			} else {
				for j := (i + 1) % every; j%2 == 0; j /= 2 {
					l++
				}
				if c := verifBoundOr("LALTCAP", 0); l > c {
					l = c
				}
			}
			verifAssume(verifLayer(k) == uint8(l))
		}
		err := t.Insert(vctx, symKey{k}, v)
		verifAssert("C01."+tag+".insert.err", err == nil)
		md.put(k, v)
		ks = append(ks, k)
	}
	// MID further symbolic inserts, anywhere in the key range and at any layer (updates included).
	// The *shape* they lead to is one an ascending build reaches too, but not the state of the
	// nodes' arrays: the right half of a split in the middle of the tree keeps spare capacity and
	// can end up as a left sibling, which an ascending build never produces.
	for i := 0; i < verifBoundOr("MID", 0); i++ {
		k, v := verifNondetKey("midk"), verifNondetVal("midv")
		verifAssert("C01."+tag+".mid-insert.err", t.Insert(vctx, symKey{k}, v) == nil)
		md.put(k, v)
	}
	return ks
}

// iterAll collects a full iteration.
func iterAll(t *Mast) (ks, vs []uint64, err error) {
	err = t.Iter(vctx, func(k, v interface{}) error {
		ks = append(ks, k.(symKey).id)
		vs = append(vs, v.(uint64))
		return nil
	})
	return
}

// seqMatches: ks/vs is exactly the sorted content of md.
func seqMatches(ks, vs []uint64, md *symModel) bool {
	ok := uint64(len(ks)) == md.size()
	for i := range ks {
		f, v := md.lookup(ks[i])
		ok = verifAnd(ok, verifAnd(f, v == vs[i]))
		if i > 0 {
			ok = verifAnd(ok, ks[i-1] < ks[i])
		}
	}
	return ok
}

// checkTree is the observation battery of C01.
func checkTree(tag string, t *Mast, md *symModel, probe symKey) {
	checkTreeP("C01."+tag, t, md, probe)
}

func checkTreeP(tag string, t *Mast, md *symModel, probe symKey) {
	verifAssert(tag+".size", t.Size() == md.size())
	ks, vs, err := iterAll(t)
	verifAssert(tag+".iter-err", err == nil)
	if err == nil {
		verifAssert(tag+".iter-seq", seqMatches(ks, vs, md))
	}
	var out uint64
	found, err := t.Get(vctx, probe, &out)
	ef, ev := md.lookup(probe.id)
	verifAssert(tag+".get-err", err == nil)
	verifAssert(tag+".get-found", found == ef)
	if found {
		verifAssert(tag+".get-val", out == ev)
	}
}

// checkIterP: Size and full iteration against the model; the probe lookup only when withGet.
func checkIterP(tag string, t *Mast, md *symModel, probe symKey, withGet bool) {
	ks, vs, err := iterAll(t)
	verifAssert(tag+".iter-err", err == nil)
	if err == nil {
		verifAssert(tag+".iter-seq", verifAnd(t.Size() == md.size(), seqMatches(ks, vs, md)))
	}
	if withGet {
		var out uint64
		found, err := t.Get(vctx, probe, &out)
		ef, ev := md.lookup(probe.id)
		verifAssert(tag+".get-err", err == nil)
		verifAssert(tag+".get", verifAnd(found == ef, verifOr(!ef, out == ev)))
	}
}
