package mast

// Harness library shared by the symbolic run (engine) and the native replay.
// Harness code avoids && / || / if on symbolic data where a term will do:
// every such branch forks the path; verifAnd/verifOr/verifIte build terms.

import (
	"context"
	"errors"
)

var vctx = context.Background()

// ---- keys with symbolic order and symbolic layer ----

type symKey struct{ id uint64 }

func (k symKey) Layer(branchFactor uint) uint8 { return verifLayer(k.id) }
func (k symKey) Order(o Key) int               { return verifCmpU64(k.id, o.(symKey).id) }

var errSymCodec = errors.New("symcodec: bad input")

func symMarshal(i interface{}) ([]byte, error) {
	switch v := i.(type) {
	case symKey:
		b := make([]byte, 8)
		verifPutU64(b, v.id)
		return b, nil
	case uint64:
		b := make([]byte, 8)
		verifPutU64(b, v)
		return b, nil
	}
	return nil, errSymCodec
}

func symUnmarshal(b []byte, out interface{}) error {
	if len(b) != 8 {
		return errSymCodec
	}
	switch p := out.(type) {
	case *symKey:
		p.id = verifGetU64(b)
		return nil
	case *uint64:
		*p = verifGetU64(b)
		return nil
	}
	return errSymCodec
}

func symConfig(store Persist, cache NodeCache) *RemoteConfig {
	return &RemoteConfig{
		KeysLike:                symKey{},
		ValuesLike:              uint64(0),
		StoreImmutablePartsWith: store,
		Marshal:                 symMarshal,
		Unmarshal:               symUnmarshal,
		NodeCache:               cache,
	}
}

// ---- recording store ----

type vStore struct {
	prefix   string
	names    []string
	blobs    [][]byte
	storeLog []string // every Store call, in completion order
	loadLog  []string // every Load call
	failLoad func(n int, name string) bool
	failStore func(n int, name string) bool
	nLoad    int
	nStore   int
	yieldInStore bool
}

var errVStoreMissing = errors.New("vstore: no such node")
var errVStoreFault = errors.New("vstore: injected fault")

func newVStore(prefix string) *vStore { return &vStore{prefix: prefix} }

func (s *vStore) find(name string) int {
	for i := range s.names {
		if s.names[i] == name {
			return i
		}
	}
	return -1
}

func (s *vStore) Store(ctx context.Context, name string, b []byte) error {
	n := s.nStore
	s.nStore++
	if s.yieldInStore {
		verifYield()
	}
	if s.failStore != nil && s.failStore(n, name) {
		return errVStoreFault
	}
	cp := make([]byte, len(b))
	copy(cp, b)
	s.storeLog = append(s.storeLog, name)
	if i := s.find(name); i >= 0 {
		s.blobs[i] = cp
		return nil
	}
	s.names = append(s.names, name)
	s.blobs = append(s.blobs, cp)
	return nil
}

func (s *vStore) Load(ctx context.Context, name string) ([]byte, error) {
	n := s.nLoad
	s.nLoad++
	s.loadLog = append(s.loadLog, name)
	if s.failLoad != nil && s.failLoad(n, name) {
		return nil, errVStoreFault
	}
	i := s.find(name)
	if i < 0 {
		return nil, errVStoreMissing
	}
	cp := make([]byte, len(s.blobs[i]))
	copy(cp, s.blobs[i])
	return cp, nil
}

func (s *vStore) NodeURLPrefix() string { return s.prefix }

// ---- unbounded node cache ----

type vCache struct {
	keys []string
	vals []interface{}
	cap  int // 0 = unbounded; otherwise FIFO eviction
	frozen bool
}

func (c *vCache) idx(key interface{}) int {
	k := key.(string)
	for i := range c.keys {
		if c.keys[i] == k {
			return i
		}
	}
	return -1
}
func (c *vCache) Add(key, value interface{}) {
	if c.frozen {
		return
	}
	if i := c.idx(key); i >= 0 {
		c.vals[i] = value
		return
	}
	c.keys = append(c.keys, key.(string))
	c.vals = append(c.vals, value)
	if c.cap > 0 && len(c.keys) > c.cap {
		c.keys = c.keys[1:]
		c.vals = c.vals[1:]
	}
}
func (c *vCache) Contains(key interface{}) bool { return c.idx(key) >= 0 }
func (c *vCache) Get(key interface{}) (interface{}, bool) {
	if i := c.idx(key); i >= 0 {
		return c.vals[i], true
	}
	return nil, false
}

// ---- reference map: association list with shadowing, evaluated as terms ----

type mEntry struct {
	k, v    uint64
	present bool
}

type symModel struct{ es []mEntry }

func (m *symModel) clone() *symModel {
	return &symModel{es: append([]mEntry(nil), m.es...)}
}
func (m *symModel) put(k, v uint64) { m.es = append(m.es, mEntry{k, v, true}) }
func (m *symModel) del(k uint64)    { m.es = append(m.es, mEntry{k, 0, false}) }

func (m *symModel) lookup(p uint64) (found bool, v uint64) {
	for _, e := range m.es {
		eq := e.k == p
		found = verifIteB(eq, e.present, found)
		v = verifIte(eq, e.v, v)
	}
	return
}

func (m *symModel) size() uint64 {
	var n uint64
	for i := range m.es {
		eff := m.es[i].present
		for j := i + 1; j < len(m.es); j++ {
			eff = verifAnd(eff, m.es[j].k != m.es[i].k)
		}
		n += verifIte(eff, 1, 0)
	}
	return n
}

// iterAll collects a full iteration.
func iterAll(t *Mast) (ks, vs []uint64, err error) {
	err = t.Iter(vctx, func(k, v interface{}) error {
		ks = append(ks, k.(symKey).id)
		vs = append(vs, v.(uint64))
		return nil
	})
	return
}

// seqMatches: ks/vs is exactly the sorted content of md.
func seqMatches(ks, vs []uint64, md *symModel) bool {
	ok := uint64(len(ks)) == md.size()
	for i := range ks {
		f, v := md.lookup(ks[i])
		ok = verifAnd(ok, verifAnd(f, v == vs[i]))
		if i > 0 {
			ok = verifAnd(ok, ks[i-1] < ks[i])
		}
	}
	return ok
}

// checkTree is the observation battery of C01.
func checkTree(tag string, t *Mast, md *symModel, probe symKey) {
	verifAssert(tag+".size", t.Size() == md.size())
	ks, vs, err := iterAll(t)
	verifAssert(tag+".iter-err", err == nil)
	if err == nil {
		verifAssert(tag+".iter-seq", seqMatches(ks, vs, md))
	}
	var out uint64
	found, err := t.Get(vctx, probe, &out)
	ef, ev := md.lookup(probe.id)
	verifAssert(tag+".get-err", err == nil)
	verifAssert(tag+".get-found", found == ef)
	if found {
		verifAssert(tag+".get-val", out == ev)
	}
}
