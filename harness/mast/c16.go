package mast

// C16: point operations read only the search path. Cache-less persisted tree;
// Persist.Load calls are counted per API call.
func HarnessC16a() {
	N := verifBound("N")
	bf := uint(verifBound("BF"))
	st := newVStore("s1")
	cfg := symConfig(st, nil)
	t0, err := NewRoot(&CreateRemoteOptions{BranchFactor: bf}).LoadMast(vctx, cfg)
	verifAssert("C01.new.err", err == nil)
	md := &symModel{}
	buildAscending("build", t0, md, N)
	r, err := t0.MakeRoot(vctx)
	verifAssert("C01.makeroot.err", err == nil)
	if err != nil {
		return
	}
	H := int(r.Height)
	n0 := st.nLoad
	t, err := r.LoadMast(vctx, cfg)
	verifAssert("C01.load.err", err == nil)
	if err != nil {
		return
	}
	verifAssert("C16.loadmast-reads-top-only", st.nLoad-n0 <= 1)
	n0 = st.nLoad
	c, err := t.Clone(vctx)
	verifAssert("C01.clone.err", err == nil)
	verifAssert("C16.clone-reads-top-only", st.nLoad-n0 <= 1)
	if verifBoundOr("KEEP", 0) == 1 {
		// the operation runs on the in-process handle that has just been persisted: its root is a
		// name and nothing is in memory, so the operation's own reads include the top node
		c = *t0
	}
	k, v := verifNondetKey("k"), verifNondetVal("v")
	switch verifChoose("op", 3) {
	case 0:
		var out uint64
		n0 = st.nLoad
		_, err := c.Get(vctx, symKey{k}, &out)
		verifAssert("C01.get.err", err == nil)
		verifAssert("C16.get-reads-path", st.nLoad-n0 <= H+1)
	case 1:
		n0 = st.nLoad
		err := c.Insert(vctx, symKey{k}, v)
		verifAssert("C01.insert.err", err == nil)
		if int(c.Height()) == H {
			verifAssert("C16.insert-reads-two-paths", st.nLoad-n0 <= 2*(H+1))
		}
	case 2:
		n0 = st.nLoad
		err := c.Delete(vctx, symKey{k}, v)
		f, mv := md.lookup(k)
		verifAssert("C01.delete.result", (err == nil) == verifAnd(f, mv == v))
		if int(c.Height()) == H {
			verifAssert("C16.delete-reads-two-paths", st.nLoad-n0 <= 2*(H+1))
		}
	}
	// after the operation (the handle now mixes in-memory path nodes with persisted children): cloning it, or
	// opening a cursor on it, still reads at most the top node, and a lookup still reads at most one path
	n0 = st.nLoad
	c2, err := c.Clone(vctx)
	verifAssert("C01.clone.err", err == nil)
	verifAssert("C16.clone-after-op-reads-top-only", st.nLoad-n0 <= 1)
	n0 = st.nLoad
	_, err = c.Cursor(vctx)
	verifAssert("C01.cursor.err", err == nil)
	verifAssert("C16.cursor-after-op-reads-top-only", st.nLoad-n0 <= 1)
	if err == nil && verifBoundOr("GET2", 0) == 1 {
		// (only where GET2 says so: a second symbolic key multiplies the paths by the tree size)
		var out uint64
		k2 := verifNondetKey("k2")
		n0 = st.nLoad
		_, err = c2.Get(vctx, symKey{k2}, &out)
		verifAssert("C01.get.err", err == nil)
		verifAssert("C16.get-after-op-reads-path", st.nLoad-n0 <= int(c2.Height())+1)
	}
}
