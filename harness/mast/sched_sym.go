package mast

// Symbolic side: Store yields to the engine's scheduler between start and completion,
// and MakeRoot runs with schedule exploration on.

func storeGate(s *vStore) { verifYield() }

func makeRootScheduled(t *Mast, st *vStore) (r *Root, err error, writesInFlightAtReturn bool) {
	verifSched(true)
	r, err = t.MakeRoot(vctx)
	verifSched(false)
	return r, err, st.started != st.completed
}

// The engine runs one goroutine at a time, so the recording store needs no lock there.
func storeLock(s *vStore)   {}
func storeUnlock(s *vStore) {}

// (the same for the recording cache: flush's store workers call NodeCache.Add concurrently)
func cacheLock(c *vCache)   {}
func cacheUnlock(c *vCache) {}
