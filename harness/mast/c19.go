package mast

// C19: LoadMast rejects a root that does not match the configuration.
// A correctly persisted symbolic tree is perturbed in one way; for each
// condition listed in the property the harness decides independently whether
// it holds, and then LoadMast must return an error (a panic or a tree is a violation).
func HarnessC19a() {
	N := verifBound("N")
	bf := uint(verifBound("BF"))
	st := newVStore("s1")
	cfg := symConfig(st, mkCache(verifBoundOr("CACHE", 0))) // CACHE=1: the loader shares the writer's (warm) node cache
	fm := verifBoundOr("FMT", 0) // 0 binary, 1 v1marshaler (raw two-stage decode), 2 v1marshaler (registered types)
	cfg.UnmarshalerUsesRegisteredTypes = fm == 2
	encodeTop := func(keys, vals []uint64, links []string) []byte {
		if fm == 0 {
			return refEncode(keys, vals, links)
		}
		n := Node{}
		for _, k := range keys {
			n.Key = append(n.Key, symKey{k})
		}
		for _, v := range vals {
			n.Value = append(n.Value, v)
		}
		for _, l := range links {
			if l == "" {
				n.Link = append(n.Link, nil)
			} else {
				n.Link = append(n.Link, l)
			}
		}
		b, _ := symMarshal(n)
		return b
	}
	t, err := NewRoot(&CreateRemoteOptions{BranchFactor: bf, NodeFormat: fmtOf(fm)}).LoadMast(vctx, cfg)
	verifAssert("C01.new.err", err == nil)
	md := &symModel{}
	buildAscending("build", t, md, N)
	r, err := t.MakeRoot(vctx)
	verifAssert("C01.makeroot.err", err == nil)
	if err != nil {
		return
	}
	if r.Link == nil {
		// a root without a top node (never-populated or emptied tree): the format clause still applies
		bad := *r
		bad.NodeFormat = "v9.unknown"
		var lerr error
		panicked := verifPanics(func() { _, lerr = bad.LoadMast(vctx, cfg) })
		verifAssert("C19.no-panic.unknown-format-empty-root", !panicked)
		if !panicked {
			verifAssert("C19.rejected.unknown-format-empty-root", lerr != nil)
		}
		return
	}
	var top *pnode
	if fm == 0 {
		top = loadPNode(st, *r.Link, int(r.Height), true)
	} else if i := st.find(*r.Link); i >= 0 {
		// v1marshaler top node in the harness marshaler's encoding
		if kb, vb, links, ok := symParseNode(st.blobs[i]); ok {
			top = &pnode{name: *r.Link, level: int(r.Height), top: true}
			for _, x := range kb {
				top.keys = append(top.keys, verifGetU64(x))
			}
			for _, x := range vb {
				top.vals = append(top.vals, verifGetU64(x))
			}
			if len(links) == 0 {
				links = make([]string, len(kb)+1)
			}
			top.links = links
		}
	}
	verifAssert("C03.complete", top != nil)
	if top == nil {
		return
	}
	bad := *r
	mustReject := false
	why := ""
	replaceTop := func(b []byte) {
		name := verifHashName(b)
		st.Store(vctx, name, b)
		bad.Link = &name
	}
	switch verifChoose("perturb", 10) {
	case 9: // one link too few (the remaining list still has a non-nil entry, so it is not the trimmed form)
		short := append([]string{}, top.links[:len(top.links)-1]...)
		any := false
		for _, l := range short {
			if l != "" {
				any = true
			}
		}
		if !any {
			verifAssume(false)
		}
		replaceTop(encodeTop(top.keys, top.vals, short))
		mustReject, why = true, "count-mismatch"
	case 0: // unknown node format
		bad.NodeFormat = "v9.unknown"
		mustReject, why = true, "unknown-format"
	case 1: // recorded height differs: some top key's layer is below it
		h := verifNondetU8("height")
		verifAssume(h <= 4)
		bad.Height = h
		for _, k := range top.keys {
			mustReject = verifOr(mustReject, verifLayer(k) < h)
		}
		why = "layer-below-height"
	case 2: // top node missing
		name := verifHashName([]byte("no such node"))
		bad.Link = &name
		mustReject, why = true, "top-missing"
	case 3: // more values than keys
		replaceTop(encodeTop(top.keys, append(append([]uint64{}, top.vals...), 7), top.links))
		mustReject, why = true, "count-mismatch"
	case 4: // one link too many
		replaceTop(encodeTop(top.keys, top.vals, append(append([]string{}, top.links...), *r.Link)))
		mustReject, why = true, "count-mismatch"
	case 5: // two adjacent keys swapped (needs two keys in the top node)
		if len(top.keys) < 2 {
			verifAssume(false)
		}
		i := verifChoose("swap", len(top.keys)-1)
		ks := append([]uint64{}, top.keys...)
		ks[i], ks[i+1] = ks[i+1], ks[i]
		replaceTop(encodeTop(ks, top.vals, top.links))
		mustReject, why = true, "not-ascending"
	case 6: // loader uses the reversed key order
		if len(top.keys) < 2 {
			verifAssume(false)
		}
		cfg2 := *cfg
		cfg2.KeyCompare = func(a, b interface{}) (int, error) { return b.(symKey).Order(a.(symKey)), nil }
		cfg = &cfg2
		mustReject, why = true, "not-ascending-under-configured-order"
	case 8: // loader's key order ties two adjacent top keys: not strictly ascending
		if len(top.keys) < 2 {
			verifAssume(false)
		}
		ti := verifChoose("tie", len(top.keys)-1)
		ka, kb := top.keys[ti], top.keys[ti+1]
		cfg2 := *cfg
		cfg2.KeyCompare = func(a, b interface{}) (int, error) {
			x, y := a.(symKey).id, b.(symKey).id
			if verifOr(verifAnd(x == ka, y == kb), verifAnd(x == kb, y == ka)) {
				return 0, nil
			}
			return a.(symKey).Order(b.(symKey)), nil
		}
		cfg = &cfg2
		mustReject, why = true, "tie-under-configured-order"
	case 7: // arbitrary bytes as top node: undecodable input must be rejected
		if fm != 0 {
			verifAssume(false) // the independent decodability oracle knows the binary format only
		}
		L := verifChoose("len", verifBound("L")+1)
		b := make([]byte, L)
		for i := range b {
			b[i] = verifNondetU8("byte")
			verifAssume(b[i] < 10) // stated cut: single-byte varints, declared counts and lengths below 10
		}
		refDecodeAllowTrailing = true
		_, _, _, ok := refDecode(b)
		refDecodeAllowTrailing = false
		if ok {
			verifAssume(false) // decodable inputs are the business of the other cases
		}
		replaceTop(b)
		mustReject, why = true, "undecodable"
	}
	if verifBoundOr("SIZEPERT", 0) == 1 {
		// the listed conditions do not mention the recorded Size: a root whose Size is anything at all
		// (0 included: a writer that omits the field) must still be rejected when one of them holds
		bad.Size = verifNondetU64("size")
	}
	var lt *Mast
	var lerr error
	panicked := verifPanics(func() { lt, lerr = bad.LoadMast(vctx, cfg) })
	_ = lt
	verifNote(why)
	verifAssert("C19.no-panic."+why, verifOr(!mustReject, !panicked))
	if !panicked {
		verifAssert("C19.rejected."+why, verifOr(!mustReject, lerr != nil))
	}
}
