package mast

// applyOps runs up to K symbolic operations (0 insert / 1 delete / 2 persist+reload / 3 clone / 4 persist /
// 5 persist and go back to the first persisted version / 6 persist and restart with an empty cache)
// on a tree and its model. It returns whether any delete succeeded.
func applyOps(tag string, cur *Mast, md *symModel, cfg *RemoteConfig, K int, nops int) (*Mast, *symModel, bool) {
	deleted := false
	var firstRoot *Root // the first version persisted during this history (ops 5 and 6 go back to it)
	var firstMd *symModel
	remember := func(r *Root, md *symModel) {
		if firstRoot == nil {
			firstRoot, firstMd = r, md.clone()
		}
	}
	seq := verifBoundOr("SEQ."+tag, -1)
	for i := 0; i < K; i++ {
		op := 0
		if seq >= 0 {
			// scenario-directed run: the i-th operation is the i-th decimal digit of SEQ.<tag>
			d := seq
			for j := i + 1; j < K; j++ {
				d /= 10
			}
			op = d % 10
		} else {
			op = verifChoose(tag+".op", nops)
		}
		switch op {
		case 0:
			k, v := verifNondetKey("k"), verifNondetVal("v")
			err := cur.Insert(vctx, symKey{k}, v)
			verifAssert("C01."+tag+".insert.err", err == nil)
			md.put(k, v)
		case 1:
			k, v := verifNondetKey("k"), verifNondetVal("v")
			f, mv := md.lookup(k)
			expectOK := verifAnd(f, mv == v)
			err := cur.Delete(vctx, symKey{k}, v)
			verifAssert("C01."+tag+".delete.result", (err == nil) == expectOK)
			if err == nil {
				md = md.clone()
				md.del(k)
				deleted = true
			}
		case 2:
			r, err := cur.MakeRoot(vctx)
			verifAssert("C01."+tag+".makeroot.err", err == nil)
			if err == nil {
				remember(r, md)
				cur, err = r.LoadMast(vctx, cfg)
				verifAssert("C01."+tag+".load.err", err == nil)
			}
		case 5:
			// branch: persist this version, then continue on the *first* version persisted in this
			// history, opened again through the same store and cache
			r, err := cur.MakeRoot(vctx)
			verifAssert("C01."+tag+".makeroot.err", err == nil)
			if err == nil {
				remember(r, md)
				cur, err = firstRoot.LoadMast(vctx, cfg)
				verifAssert("C01."+tag+".load.err", err == nil)
				md = firstMd.clone()
			}
		case 6:
			// restart: persist, then open the version through a new, empty cache (which fills by decoding)
			r, err := cur.MakeRoot(vctx)
			verifAssert("C01."+tag+".makeroot.err", err == nil)
			if err == nil {
				remember(r, md)
				if cfg.NodeCache != nil {
					cfg.NodeCache = &vCache{}
				}
				cur, err = r.LoadMast(vctx, cfg)
				verifAssert("C01."+tag+".load.err", err == nil)
			}
		case 3:
			c, err := cur.Clone(vctx)
			verifAssert("C01."+tag+".clone.err", err == nil)
			cur = &c
		case 4:
			r, err := cur.MakeRoot(vctx)
			verifAssert("C01."+tag+".makeroot.err", err == nil)
			if err == nil {
				remember(r, md)
			}
		}
	}
	return cur, md, deleted
}

// C04/C09: after any history, the persisted version satisfies the shape
// invariants and the height rule, and equals (same Root) the tree obtained by
// inserting the same entries in ascending order into a fresh tree.
func HarnessC04a() { harnessC04(0) }

// C04b: the same oracle after an ascending build of N entries (reaching heights the
// short histories of C04a cannot) followed by K arbitrary operations.
func HarnessC04b() { harnessC04(verifBound("N")) }

func harnessC04(n int) {
	K := verifBound("K")
	bf := uint(verifBound("BF"))
	st := newVStore("s1")
	cfg := symConfig(st, mkCache(verifBoundOr("CACHE", 0)))
	fm := verifBoundOr("FMT", 0)
	cfg.UnmarshalerUsesRegisteredTypes = fm == 2
	cur, err := NewRoot(&CreateRemoteOptions{BranchFactor: bf, NodeFormat: fmtOf(fm)}).LoadMast(vctx, cfg)
	verifAssert("C01.new.err", err == nil)
	md := &symModel{}
	if n > 0 {
		buildAscending("build", cur, md, n)
		if hreq := verifBoundOr("HREQ", -1); hreq >= 0 && int(cur.Height()) != hreq {
			verifAssume(false)
		}
	}
	cur, md, _ = applyOps("h", cur, md, cfg, K, verifBound("NOPS"))
	r, err := cur.MakeRoot(vctx)
	verifAssert("C01.makeroot.err", err == nil)
	if err != nil {
		return
	}
	persistV1 = fm != 0 // v1marshaler nodes are read through the harness marshaler's own parser
	rep := checkShape(st, r)
	verifAssert("C09.complete", rep.complete)
	verifAssert("C09.levels", rep.levelsOK)
	verifAssert("C09.counts", rep.countsOK)
	verifAssert("C09.order", rep.orderOK)
	verifAssert("C09.layers", rep.layersOK)
	verifAssert("C09.ranges", rep.rangesOK)
	verifAssert("C09.no-empty-node", rep.noEmptyOK)
	verifAssert("C09.size", r.Size == rep.entries)
	verifAssert("C04.size-model", r.Size == md.size())

	rule := ruleHeight(uint64(bf), r.Size, rep.maxLayer)
	verifAssert("C04.height-rule", uint64(r.Height) == rule)

	c04Reference(cur, r, bf, fm)
}

// c04Reference: ascending inserts of the same contents into a fresh tree in a fresh store give the same root.
func c04Reference(cur *Mast, r *Root, bf uint, fm int) {
	ks, vs, err := iterAll(cur)
	verifAssert("C01.iter.err", err == nil)
	st2 := newVStore("s2")
	cfg2 := symConfig(st2, nil)
	cfg2.UnmarshalerUsesRegisteredTypes = fm == 2
	ref, err := NewRoot(&CreateRemoteOptions{BranchFactor: bf, NodeFormat: fmtOf(fm)}).LoadMast(vctx, cfg2)
	verifAssert("C01.ref.new.err", err == nil)
	for i := range ks {
		err := ref.Insert(vctx, symKey{ks[i]}, vs[i])
		verifAssert("C01.ref.insert.err", err == nil)
	}
	r2, err := ref.MakeRoot(vctx)
	verifAssert("C01.ref.makeroot.err", err == nil)
	if err != nil {
		return
	}
	verifAssert("C04.same-size", r.Size == r2.Size)
	verifAssert("C04.same-height", r.Height == r2.Height)
	sameLink := false
	if r.Link == nil || r2.Link == nil {
		sameLink = r.Link == nil && r2.Link == nil
	} else {
		sameLink = verifStrEq(*r.Link, *r2.Link)
	}
	verifAssert("C04.same-link", sameLink)
	verifAssert("C08.equal-contents-equal-root-name", sameLink)
}
