package mast

import "errors"

type diffRec struct {
	added, removed bool
	key            uint64
	av, rv         uint64
	hasAv, hasRv   bool
}

func u64of(x interface{}) (uint64, bool) {
	if x == nil {
		return 0, false
	}
	return x.(uint64), true
}

// makePair builds the ordered pair (old, new) of trees for the diff properties.
//   MODE 0: new = clone of old + K operations (related, in memory)
//   MODE 1: old persisted and re-loaded; new = re-loaded old + K operations, persisted and re-loaded (related, persisted)
//   MODE 2: two independent builds (N and K arbitrary inserts), in memory
//   MODE 3: two independent builds, both persisted and re-loaded
//   MODE 4: old == nil (diff against nothing)
//   MODE 5: old emptied by deletes (in memory); new = K inserts
//   MODE 6: new emptied by deletes; old = N entries
//   MODE 7: as MODE 3, but the two trees live in different stores (st for old, a second store for new)
//   MODE 8: old = N entries persisted; new = a never-populated tree, persisted (root without link) and re-loaded
//   MODE 9: old = never-populated persisted tree; new = K entries persisted
var pairNewStore *vStore // the new tree's store when it differs from the old tree's (MODE 7)

func makePair(st *vStore, cfg *RemoteConfig, bf uint) (old, nw *Mast, mdOld, mdNew *symModel, rOld, rNew *Root, ok bool) {
	pairNewStore = st
	N := verifBound("N")
	K := verifBound("K")
	mode := verifBound("MODE")
	fresh := func() *Mast {
		t, err := NewRoot(&CreateRemoteOptions{BranchFactor: bf}).LoadMast(vctx, cfg)
		verifAssert("C01.new.err", err == nil)
		return t
	}
	persist := func(t *Mast) (*Mast, *Root, bool) {
		r, err := t.MakeRoot(vctx)
		verifAssert("C01.makeroot.err", err == nil)
		if err != nil {
			return nil, nil, false
		}
		if verifBoundOr("KEEP", 0) == 1 {
			// the version is the in-process handle that has just been persisted (its root is now a name,
			// or nil for a tree emptied by Delete), not a tree re-loaded from the root record
			return t, r, true
		}
		t2, err := r.LoadMast(vctx, cfg)
		verifAssert("C01.load.err", err == nil)
		return t2, r, err == nil
	}
	old = fresh()
	mdOld = &symModel{}
	ok = true
	switch mode {
	case 0, 1:
		buildAscending("old", old, mdOld, N)
		if mode == 1 {
			if old, rOld, ok = persist(old); !ok {
				return
			}
		}
		c, err := old.Clone(vctx)
		verifAssert("C01.clone.err", err == nil)
		nw = &c
		mdNew = mdOld.clone()
		nw, mdNew, _ = applyOps("new", nw, mdNew, cfg, K, 2)
		if mode == 1 {
			if nw, rNew, ok = persist(nw); !ok {
				return
			}
		}
	case 2, 3, 7:
		buildAscending("old", old, mdOld, N)
		cfgNew := cfg
		if mode == 7 {
			pairNewStore = newVStore("s-new")
			cfgNew = symConfig(pairNewStore, nil)
		}
		var err error
		nw, err = NewRoot(&CreateRemoteOptions{BranchFactor: bf}).LoadMast(vctx, cfgNew)
		verifAssert("C01.new.err", err == nil)
		mdNew = &symModel{}
		nw, mdNew, _ = applyOps("new", nw, mdNew, cfgNew, K, 1)
		if mode == 3 || mode == 7 {
			if old, rOld, ok = persist(old); !ok {
				return
			}
			r, err := nw.MakeRoot(vctx)
			verifAssert("C01.makeroot.err", err == nil)
			if err != nil {
				return nil, nil, nil, nil, nil, nil, false
			}
			nw, err = r.LoadMast(vctx, cfgNew)
			verifAssert("C01.load.err", err == nil)
			if err != nil {
				return nil, nil, nil, nil, nil, nil, false
			}
			rNew = r
		}
	case 8, 9:
		full := old
		mdFull := mdOld
		n := N
		if mode == 9 {
			n = K
		}
		buildAscending("full", full, mdFull, n)
		var rFull *Root
		if full, rFull, ok = persist(full); !ok {
			return
		}
		var empty *Mast
		var rEmpty *Root
		if empty, rEmpty, ok = persist(fresh()); !ok {
			return
		}
		if mode == 8 {
			old, mdOld, rOld = full, mdFull, rFull
			nw, mdNew, rNew = empty, &symModel{}, rEmpty
		} else {
			old, mdOld, rOld = empty, &symModel{}, rEmpty
			nw, mdNew, rNew = full, mdFull, rFull
		}
	case 4:
		old = nil
		nw = fresh()
		mdNew = &symModel{}
		buildAscending("new", nw, mdNew, K)
	case 5, 6:
		ks := buildAscending("old", old, mdOld, N)
		e := fresh()
		mdE := &symModel{}
		eks := buildAscending("emptied", e, mdE, 1)
		v, _ := u64lookup(mdE, eks[0])
		err := e.Delete(vctx, symKey{eks[0]}, v)
		verifAssert("C01.delete.err", err == nil)
		mdE = mdE.clone()
		mdE.del(eks[0])
		_ = ks
		if mode == 5 {
			nw, mdNew = old, mdOld
			old, mdOld = e, mdE
		} else {
			nw, mdNew = e, mdE
		}
	}
	return
}

func u64lookup(md *symModel, k uint64) (uint64, bool) {
	f, v := md.lookup(k)
	return v, f
}

func universe(a, b *symModel) []uint64 {
	var ks []uint64
	if a != nil {
		for _, e := range a.es {
			ks = append(ks, e.k)
		}
	}
	for _, e := range b.es {
		ks = append(ks, e.k)
	}
	return ks
}

var errStop = errors.New("callback says stop")

// checkEntryDiff: the C06 oracle over one recorded callback sequence.
func checkEntryDiff(tag string, recs []diffRec, mdOld, mdNew *symModel) {
	empty := &symModel{}
	if mdOld == nil {
		mdOld = empty
	}
	order := true
	each := true
	for i, r := range recs {
		if i > 0 {
			order = verifAnd(order, recs[i-1].key < r.key)
		}
		f1, v1 := mdOld.lookup(r.key)
		f2, v2 := mdNew.lookup(r.key)
		var ok bool
		switch {
		case r.added && r.removed:
			ok = false
		case r.added:
			// an added key has a new value and no old value
			ok = verifAnd(verifAnd(!f1, f2), verifAnd(verifAnd(r.hasAv, r.av == v2), !r.hasRv))
		case r.removed:
			ok = verifAnd(verifAnd(f1, !f2), verifAnd(verifAnd(r.hasRv, r.rv == v1), !r.hasAv))
		default:
			ok = verifAnd(verifAnd(f1, f2), verifAnd(v1 != v2, verifAnd(verifAnd(r.hasAv, r.av == v2), verifAnd(r.hasRv, r.rv == v1))))
		}
		each = verifAnd(each, ok)
	}
	verifAssert(tag+".ascending-once", order)
	verifAssert(tag+".each-correct", each)
	complete := true
	for _, k := range universe(mdOld, mdNew) {
		f1, v1 := mdOld.lookup(k)
		f2, v2 := mdNew.lookup(k)
		differs := verifOr(f1 != f2, verifAnd(f1, v1 != v2))
		reported := false
		for _, r := range recs {
			reported = verifOr(reported, r.key == k)
		}
		complete = verifAnd(complete, verifOr(!differs, reported))
	}
	verifAssert(tag+".complete", complete)
}

// C06: entry diff is exact; callback and cursor interfaces agree; early stop and errors.
func HarnessC06a() {
	bf := uint(verifBound("BF"))
	st := newVStore("s1")
	cfg := symConfig(st, nil)
	old, nw, mdOld, mdNew, _, _, ok := makePair(st, cfg, bf)
	if !ok {
		return
	}
	var recs []diffRec
	err := nw.DiffIter(vctx, old, func(added, removed bool, key, av, rv interface{}) (bool, error) {
		r := diffRec{added: added, removed: removed, key: key.(symKey).id}
		r.av, r.hasAv = u64of(av)
		r.rv, r.hasRv = u64of(rv)
		recs = append(recs, r)
		return true, nil
	})
	verifAssert("C06.diffiter.err", err == nil)
	if err != nil {
		return
	}
	checkEntryDiff("C06.iter", recs, mdOld, mdNew)

	// cursor interface reports the same sequence
	dc, err := nw.StartDiff(vctx, old)
	verifAssert("C06.startdiff.err", err == nil)
	if err == nil {
		same := true
		n := 0
		for {
			d, err := dc.NextEntry(vctx)
			if err == ErrNoMoreDiffs {
				break
			}
			verifAssert("C06.nextentry.err", err == nil)
			if err != nil {
				return
			}
			if n < len(recs) {
				r := recs[n]
				typ := DiffType_Change
				if r.added {
					typ = DiffType_Add
				} else if r.removed {
					typ = DiffType_Remove
				}
				nv, hasN := u64of(d.NewValue)
				ov, hasO := u64of(d.OldValue)
				same = verifAnd(same, verifAnd(d.Key.(symKey).id == r.key, d.Type == typ))
				same = verifAnd(same, verifAnd(hasN == r.hasAv, hasO == r.hasRv))
				if hasN && r.hasAv {
					same = verifAnd(same, nv == r.av)
				}
				if hasO && r.hasRv {
					same = verifAnd(same, ov == r.rv)
				}
			}
			n++
			if n > len(recs)+2 {
				break
			}
		}
		verifAssert("C06.cursor-same-count", n == len(recs))
		verifAssert("C06.cursor-same-entries", same)
		_, err = dc.NextEntry(vctx)
		verifAssert("C06.cursor-done-stays-done", err == ErrNoMoreDiffs)
	}

	// early stop / callback error at an arbitrary position
	if len(recs) > 0 {
		stopAt := verifChoose("stop", len(recs))
		how := verifChoose("stoperr", 3) // 0: (false, nil)  1: (true, err)  2: (false, err)
		withErr := how != 0
		calls := 0
		err := nw.DiffIter(vctx, old, func(added, removed bool, key, av, rv interface{}) (bool, error) {
			calls++
			if calls-1 == stopAt {
				switch how {
				case 1:
					return true, errStop
				case 2:
					return false, errStop
				}
				return false, nil
			}
			return true, nil
		})
		verifAssert("C06.stop-count", calls == stopAt+1)
		verifAssert("C06.stop-result", (err != nil) == withErr)
	}
}

// linkNames collects DiffLinks callbacks.
func linkNames(nw, old *Mast) (added, removed []string, err error, allStrings bool) {
	allStrings = true
	err = nw.DiffLinks(vctx, old, func(rem bool, link interface{}) (bool, error) {
		s, ok := link.(string)
		if !ok {
			allStrings = false
			return true, nil
		}
		if rem {
			removed = append(removed, s)
		} else {
			added = append(added, s)
		}
		return true, nil
	})
	return
}

func memberTerm(name string, set []string) bool {
	r := false
	for _, s := range set {
		r = verifOr(r, verifStrEq(s, name))
	}
	return r
}

func distinctTerm(set []string) bool {
	ok := true
	for i := range set {
		for j := i + 1; j < len(set); j++ {
			ok = verifAnd(ok, !verifStrEq(set[i], set[j]))
		}
	}
	return ok
}

// C07 + C15: node diff between two persisted versions, and the Load traffic of both diffs.
func HarnessC07a() {
	bf := uint(verifBound("BF"))
	st := newVStore("s1")
	cfg := symConfig(st, nil)
	mix := verifBoundOr("CACHEMIX", 0)
	if mix > 0 {
		// the versions are written, and one of them is opened, through a node cache (which then holds
		// the writer's own node objects); the other side is opened without a cache
		cfg = symConfig(st, &vCache{})
	}
	old, nw, _, mdNew, rOld, rNew, ok := makePair(st, cfg, bf)
	if !ok {
		return
	}
	if mix > 0 && rOld != nil && rNew != nil {
		plain := symConfig(st, nil)
		var err error
		if mix == 1 {
			nw, err = rNew.LoadMast(vctx, plain)
		} else {
			old, err = rOld.LoadMast(vctx, plain)
		}
		verifAssert("C01.load.err", err == nil)
		if err != nil {
			return
		}
	}
	stNew := pairNewStore
	reachOld, c1 := reachable(st, rOld)
	reachNew, c2 := reachable(stNew, rNew)
	verifAssert("C03.complete", c1 && c2)

	if nf := verifBoundOr("FAULT", 0); nf > 0 && stNew == st {
		// one transient Load failure at a symbolic position of the node diff: if the diff nevertheless
		// reports success, what it reported must still be complete (a replica acts on it)
		at := verifChoose("faultat", nf)
		n, on := 0, true
		st.failLoad = func(_ int, _ string) bool {
			if !on {
				return false
			}
			n++
			return n-1 == at
		}
		fa, fr, ferr, _ := linkNames(nw, old)
		on = false
		st.failLoad = nil
		if ferr == nil && n > at {
			verifNote("diff-succeeded-under-a-load-fault")
			cov := true
			for _, x := range reachNew {
				cov = verifAnd(cov, verifOr(memberTerm(x, reachOld), memberTerm(x, fa)))
			}
			verifAssert("C07.fault.added-covers-new-only-nodes", cov)
			cov = true
			for _, x := range reachOld {
				cov = verifAnd(cov, verifOr(memberTerm(x, reachNew), memberTerm(x, fr)))
			}
			verifAssert("C07.fault.removed-covers-old-only-nodes", cov)
			verifAssert("C07.fault.added-once", distinctTerm(fa))
			verifAssert("C07.fault.removed-once", distinctTerm(fr))
		}
	}
	l0, l0n := len(st.loadLog), len(stNew.loadLog)
	added, removed, err, allStr := linkNames(nw, old)
	difflinksLoads := append([]string{}, st.loadLog[l0:]...)
	if stNew != st {
		difflinksLoads = append(difflinksLoads, stNew.loadLog[l0n:]...)
	}
	verifAssert("C07.difflinks.err", err == nil)
	if rOld.Link != nil && rNew.Link != nil {
		verifAssert("C07.links-are-names", allStr)
	}
	if err != nil {
		return
	}
	// every node new reaches and old does not is reported as added
	cover := true
	for _, n := range reachNew {
		cover = verifAnd(cover, verifOr(memberTerm(n, reachOld), memberTerm(n, added)))
	}
	verifAssert("C07.added-covers-new-only-nodes", cover)
	inNew := true
	for _, a := range added {
		inNew = verifAnd(inNew, memberTerm(a, reachNew))
	}
	verifAssert("C07.added-within-new", inNew)
	verifAssert("C07.added-once", distinctTerm(added))
	cover = true
	for _, n := range reachOld {
		cover = verifAnd(cover, verifOr(memberTerm(n, reachNew), memberTerm(n, removed)))
	}
	verifAssert("C07.removed-covers-old-only-nodes", cover)
	inOld := true
	for _, a := range removed {
		inOld = verifAnd(inOld, memberTerm(a, reachOld))
	}
	verifAssert("C07.removed-within-old", inOld)
	verifAssert("C07.removed-once", distinctTerm(removed))

	// constructive: old version + added nodes make the new version loadable elsewhere
	st2 := newVStore("s2")
	for _, n := range reachOld {
		if i := st.find(n); i >= 0 {
			st2.Store(vctx, n, st.blobs[i])
		}
	}
	for _, n := range added {
		if i := stNew.find(n); i >= 0 {
			st2.Store(vctx, n, stNew.blobs[i])
		}
	}
	t3, err := rNew.LoadMast(vctx, symConfig(st2, nil))
	verifAssert("C07.replica-load.err", err == nil)
	if err == nil {
		ks, vs, err := iterAll(t3)
		verifAssert("C07.replica-iter.err", err == nil)
		if err == nil {
			verifAssert("C07.replica-content", seqMatches(ks, vs, mdNew))
		}
	}

	// C15: Load traffic. D = nodes in exactly one of the two versions.
	var D uint64
	for _, n := range reachNew {
		D += verifIte(memberTerm(n, reachOld), 0, 1)
	}
	for _, n := range reachOld {
		D += verifIte(memberTerm(n, reachNew), 0, 1)
	}
	distinct := func(log []string) uint64 {
		var c uint64
		for i := range log {
			first := true
			for j := 0; j < i; j++ {
				first = verifAnd(first, !verifStrEq(log[j], log[i]))
			}
			c += verifIte(first, 1, 0)
		}
		return c
	}
	// known finding: with the two top nodes starting at different keys, the diff walks one side down
	// to its first entry before expanding the other, through nodes common to both versions: up to one
	// leftmost spine and the search path of the differing key (<= 2 common nodes per level).
	hmax := uint64(rOld.Height)
	if uint64(rNew.Height) > hmax {
		hmax = uint64(rNew.Height)
	}
	spineBudget := 2 * hmax * uint64(verifBoundOr("K", 1))
	if verifBound("MODE") != 1 {
		spineBudget = 0 // the class is stated for a version and its descendant only
	}
	withinSpines := func(log []string) bool { return distinct(log) <= D+spineBudget }
	// second known finding (same cause, other quantity): when the descendant is *taller* (the tree grew), every gap
	// between two keys of the new top node starts with a new key-less node above an unchanged chain of the old
	// version, and the diff reads the head of each such chain: up to two common nodes per gap (plus the spine budget)
	growBudget := uint64(0)
	if verifBound("MODE") == 1 && rNew.Height > rOld.Height && rNew.Link != nil {
		if top := loadPNode(stNew, *rNew.Link, int(rNew.Height), true); top != nil {
			growBudget = 2*uint64(len(top.keys)+1) + 2*hmax*uint64(verifBoundOr("K", 1))
		}
	}
	withinGrowth := func(log []string) bool { return verifAnd(growBudget > 0, distinct(log) <= D+growBudget) }
	verifObserve("C15.D", D)
	verifObserve("C15.difflinks-distinct-reads", distinct(difflinksLoads))
	verifClass("C15.common-spine-nodes-are-read", withinSpines(difflinksLoads))
	verifClass("C15.growth-rereads-common-chains", withinGrowth(difflinksLoads))
	verifAssert("C15.difflinks-reads", distinct(difflinksLoads) <= 2*D+2)
	l0, l0n = len(st.loadLog), len(stNew.loadLog)
	err = nw.DiffIter(vctx, old, func(added, removed bool, key, av, rv interface{}) (bool, error) { return true, nil })
	verifAssert("C06.diffiter.err", err == nil)
	diffiterLoads := append([]string{}, st.loadLog[l0:]...)
	if stNew != st {
		diffiterLoads = append(diffiterLoads, stNew.loadLog[l0n:]...)
	}
	verifClass("C15.common-spine-nodes-are-read", withinSpines(diffiterLoads))
	verifClass("C15.growth-rereads-common-chains", withinGrowth(diffiterLoads))
	verifAssert("C15.diffiter-reads", distinct(diffiterLoads) <= 2*D+2)
	// the cursor form (StartDiff + NextEntry until ErrNoMoreDiffs), reads counted from before StartDiff
	l0, l0n = len(st.loadLog), len(stNew.loadLog)
	cursorOK := true
	if dc, derr := nw.StartDiff(vctx, old); derr != nil {
		cursorOK = false
	} else {
		for steps := 0; ; steps++ {
			verifAssume(steps <= 4*(len(reachOld)+len(reachNew))+8)
			if _, nerr := dc.NextEntry(vctx); nerr != nil {
				cursorOK = nerr == ErrNoMoreDiffs
				break
			}
		}
	}
	verifAssert("C06.cursor.err", cursorOK)
	cursorLoads := append([]string{}, st.loadLog[l0:]...)
	if stNew != st {
		cursorLoads = append(cursorLoads, stNew.loadLog[l0n:]...)
	}
	verifClass("C15.common-spine-nodes-are-read", withinSpines(cursorLoads))
	verifClass("C15.growth-rereads-common-chains", withinGrowth(cursorLoads))
	verifAssert("C15.cursor-reads", distinct(cursorLoads) <= 2*D+2)
	sameVersion := false
	if rOld.Link != nil && rNew.Link != nil {
		sameVersion = verifStrEq(*rOld.Link, *rNew.Link)
	}
	// same version: no node is read at all
	verifAssert("C15.same-version-no-reads", verifOr(!sameVersion, len(difflinksLoads)+len(diffiterLoads)+len(cursorLoads) == 0))
}
