package mast

// cursorWalk returns the entries a cursor yields from Min forward (at most lim steps).
func cursorWalk(c *Cursor, lim int) (ks, vs []uint64, err error) {
	if err = c.Min(vctx); err != nil {
		return
	}
	for i := 0; i < lim; i++ {
		k, v, ok := c.Get()
		if !ok {
			return
		}
		ks = append(ks, k.(symKey).id)
		vs = append(vs, v.(uint64))
		if err = c.Forward(vctx); err != nil {
			return
		}
	}
	return
}

func mkCache(mode int) NodeCache {
	switch mode {
	case 1:
		return &vCache{}
	case 2:
		return &vCache{cap: 1}
	case 3:
		return &vCache{cap: 2}
	}
	return nil
}

// C02: captured versions never change. A base version is captured three ways
// (Clone, Cursor, MakeRoot); then K1 symbolic operations hit the original, a
// second clone, or a tree re-loaded from the retained root through the same
// cache; after every one of them every captured version is re-observed.
func HarnessC02a() {
	N := verifBound("N")
	K1 := verifBound("K1")
	bf := uint(verifBound("BF"))
	st := newVStore("s1")
	cache := mkCache(verifBound("CACHE"))
	cfg := symConfig(st, cache)
	cfgNoCache := symConfig(st, nil)
	fm := verifBoundOr("FMT", 0) // 0 binary, 1 v1marshaler (raw two-stage decode), 2 v1marshaler (registered types)
	cfg.UnmarshalerUsesRegisteredTypes = fm == 2
	cfgNoCache.UnmarshalerUsesRegisteredTypes = fm == 2
	base, err := NewRoot(&CreateRemoteOptions{BranchFactor: bf, NodeFormat: fmtOf(fm)}).LoadMast(vctx, cfg)
	verifAssert("C01.new.err", err == nil)
	mdBase := &symModel{}
	buildAscending("build", base, mdBase, N)
	if verifBound("PERSISTFIRST") == 1 {
		// start from a persisted and re-loaded base so that its nodes come from the store/cache
		r, err := base.MakeRoot(vctx)
		verifAssert("C01.makeroot.err", err == nil)
		if err != nil {
			return
		}
		if verifBoundOr("FRESHCACHE", 0) == 1 {
			// "restart": from here on the shared cache is a new one that fills by loading
			cache = mkCache(verifBound("CACHE"))
			cfg = symConfig(st, cache)
			cfg.UnmarshalerUsesRegisteredTypes = fm == 2
		}
		base, err = r.LoadMast(vctx, cfg)
		verifAssert("C01.load.err", err == nil)
		if err != nil {
			return
		}
	}
	if hreq := verifBound("HREQ"); hreq >= 0 && int(base.Height()) != hreq {
		verifAssume(false) // this run is restricted to base trees of the requested height
	}
	mdCap := mdBase.clone()
	probe := symKey{verifNondetKey("probe")}

	// capture 1: explicit clone
	c1v, err := base.Clone(vctx)
	verifAssert("C01.clone.err", err == nil)
	c1 := &c1v
	// capture 2: cursor (implicit clone)
	cur, err := base.Cursor(vctx)
	verifAssert("C01.cursor.err", err == nil)
	if verifBoundOr("NOROOT", 0) == 1 {
		// no persist between the captures and the later writes (a persist turns the original's nodes
		// into shared ones, after which every write copies): clone and cursor captures only
		c02NoRoot(base, mdBase, c1, cur, mdCap, probe, K1)
		return
	}
	// capture 3: persisted root
	root, err := base.MakeRoot(vctx)
	verifAssert("C01.makeroot.err", err == nil)
	if err != nil {
		return
	}
	// live trees that will be modified
	c2v, err := c1.Clone(vctx)
	verifAssert("C01.clone.err", err == nil)
	c2 := &c2v
	mdC2 := mdCap.clone()
	w, err := root.LoadMast(vctx, cfg)
	verifAssert("C01.load.err", err == nil)
	if err != nil {
		return
	}
	mdW := mdCap.clone()
	w2, err := root.LoadMast(vctx, cfg)
	verifAssert("C01.load.err", err == nil)
	if err != nil {
		return
	}
	mdW2 := mdCap.clone()
	tmask := verifBound("TMASK") // which live trees may be modified: bit0 original, bit1 second clone, bit2 reloaded, bit3 second reloaded
	var tsel []int
	for t := 0; t < 4; t++ {
		if tmask&(1<<uint(t)) != 0 {
			tsel = append(tsel, t)
		}
	}

	for i := 0; i < K1; i++ {
		var tgt *Mast
		var md **symModel
		switch tsel[verifChoose("target", len(tsel))] {
		case 0:
			tgt, md = base, &mdBase
		case 1:
			tgt, md = c2, &mdC2
		case 2:
			tgt, md = w, &mdW
		case 3:
			tgt, md = w2, &mdW2
		}
		k, v := verifNondetKey("k"), verifNondetVal("v")
		opsel := []int{0, 1, 2}
		if verifBoundOr("INSERTONLY", 0) == 1 {
			opsel = []int{0}
		}
		op := 0
		if seq := verifBoundOr("SEQ.c02", -1); seq >= 0 {
			// scenario-directed run: the i-th operation is the i-th decimal digit of SEQ.c02
			d := seq
			for j := i + 1; j < K1; j++ {
				d /= 10
			}
			op = d % 10
		} else {
			op = opsel[verifChoose("op", len(opsel))]
		}
		switch op {
		case 0:
			err := tgt.Insert(vctx, symKey{k}, v)
			verifAssert("C01.insert.err", err == nil)
			(*md).put(k, v)
		case 1:
			f, mv := (*md).lookup(k)
			err := tgt.Delete(vctx, symKey{k}, v)
			verifAssert("C01.delete.result", (err == nil) == verifAnd(f, mv == v))
			if err == nil {
				*md = (*md).clone()
				(*md).del(k)
			}
		case 2:
			_, err := tgt.MakeRoot(vctx)
			verifAssert("C01.makeroot.err", err == nil)
		}
		last := i == K1-1
		// every captured version is what it was
		checkIterP("C02.clone", c1, mdCap, probe, last)
		l1, err := root.LoadMast(vctx, cfg)
		verifAssert("C02.root-shared-cache.load.err", err == nil)
		if err == nil {
			checkIterP("C02.root-shared-cache", l1, mdCap, probe, last)
		}
		l2, err := root.LoadMast(vctx, cfgNoCache)
		verifAssert("C02.root-no-cache.load.err", err == nil)
		if err == nil {
			checkIterP("C02.root-no-cache", l2, mdCap, probe, false)
		}
		// the live trees are what their own histories say
		checkIterP("C02.original", base, mdBase, probe, last)
		checkIterP("C02.second-clone", c2, mdC2, probe, last)
		checkIterP("C02.reloaded", w, mdW, probe, last)
		checkIterP("C02.reloaded2", w2, mdW2, probe, false)
	}
	cc, err := c1.Cursor(vctx) // fresh cursor on the captured clone
	verifAssert("C01.cursor.err", err == nil)
	if err == nil {
		ks, vs, err := cursorWalk(cc, N+K1+1)
		verifAssert("C02.clone-cursor.err", err == nil)
		if err == nil {
			verifAssert("C02.clone-cursor.seq", seqMatches(ks, vs, mdCap))
		}
	}
	// the cursor opened before all modifications still walks the captured contents
	ks, vs, err := cursorWalk(cur, N+K1+1)
	verifAssert("C02.cursor.err", err == nil)
	if err == nil {
		verifAssert("C02.cursor.seq", seqMatches(ks, vs, mdCap))
	}
}

// c02NoRoot: K1 symbolic inserts/deletes on the original or on a second clone; the first clone and the
// cursor opened before them must still show the captured contents.
func c02NoRoot(base *Mast, mdBase *symModel, c1 *Mast, cur *Cursor, mdCap *symModel, probe symKey, K1 int) {
	c2v, err := c1.Clone(vctx)
	verifAssert("C01.clone.err", err == nil)
	c2 := &c2v
	mdC2 := mdCap.clone()
	for i := 0; i < K1; i++ {
		tgt, md := base, &mdBase
		if verifChoose("target", 2) == 1 {
			tgt, md = c2, &mdC2
		}
		k, v := verifNondetKey("k"), verifNondetVal("v")
		if verifChoose("op", 2) == 0 {
			verifAssert("C01.insert.err", tgt.Insert(vctx, symKey{k}, v) == nil)
			(*md).put(k, v)
		} else {
			f, mv := (*md).lookup(k)
			err := tgt.Delete(vctx, symKey{k}, v)
			verifAssert("C01.delete.result", (err == nil) == verifAnd(f, mv == v))
			if err == nil {
				*md = (*md).clone()
				(*md).del(k)
			}
		}
		checkIterP("C02.clone", c1, mdCap, probe, i == K1-1)
		checkIterP("C02.original", base, mdBase, probe, false)
		checkIterP("C02.second-clone", c2, mdC2, probe, false)
	}
	ks, vs, err := cursorWalk(cur, int(mdCap.size())+K1+1)
	verifAssert("C02.cursor.err", err == nil)
	if err == nil {
		verifAssert("C02.cursor.seq", seqMatches(ks, vs, mdCap))
	}
}
