package mast

// C05e: persist/load round trip with values whose encoding may be *empty* (a raw-bytes codec;
// protobuf-style codecs behave the same for zero messages). Values are byte slices of length
// 0 or 1; the model keeps 256 for the empty slice.
func HarnessC05e() {
	N := verifBound("N")
	bf := uint(verifBound("BF"))
	st := newVStore("s1")
	cfg := symConfig(st, mkCache(verifBoundOr("CACHE", 0)))
	cfg.ValuesLike = []byte{}
	cfg.Unmarshal = bytesCodecUnmarshal
	if verifBoundOr("REUSE", 0) == 1 {
		// an unmarshaler that fills the target in place when it has capacity (as encoding/json does for slices)
		cfg.Unmarshal = bytesCodecUnmarshalReuse
	}
	t, err := NewRoot(&CreateRemoteOptions{BranchFactor: bf}).LoadMast(vctx, cfg)
	verifAssert("C01.new.err", err == nil)
	md := &symModel{}
	var last uint64
	for i := 0; i < N; i++ {
		k := verifNondetKey("k")
		if i > 0 {
			verifAssume(last < k)
		}
		last = k
		val := []byte{}
		mv := uint64(256)
		if verifChoose("vlen", 2) == 1 {
			b := verifNondetU8("vbyte")
			val, mv = []byte{b}, uint64(b)
		}
		verifAssert("C01.insert.err", t.Insert(vctx, symKey{k}, val) == nil)
		md.put(k, mv)
	}
	r, err := t.MakeRoot(vctx)
	verifAssert("C01.makeroot.err", err == nil)
	if err != nil {
		return
	}
	if verifBoundOr("FRESHCACHE", 0) == 1 && cfg.NodeCache != nil {
		cfg.NodeCache = &vCache{}
	}
	t2, err := r.LoadMast(vctx, cfg)
	verifAssert("C05.empty-bodies.load.err", err == nil)
	if err != nil {
		return
	}
	var ks, vs []uint64
	ierr := t2.Iter(vctx, func(kk, vv interface{}) error {
		ks = append(ks, kk.(symKey).id)
		b, _ := vv.([]byte)
		switch len(b) {
		case 0:
			vs = append(vs, 256)
		case 1:
			vs = append(vs, uint64(b[0]))
		default:
			vs = append(vs, 999)
		}
		return nil
	})
	verifAssert("C05.empty-bodies.iter.err", ierr == nil)
	verifAssert("C05.empty-bodies.reloaded-contents", verifAnd(t2.Size() == md.size(), seqMatches(ks, vs, md)))
	r2, err := t2.MakeRoot(vctx)
	verifAssert("C01.makeroot.err", err == nil)
	if err == nil {
		verifAssert("C05.empty-bodies.same-root-again", sameRoot(r, r2))
	}
}
