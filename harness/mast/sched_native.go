package mast

import (
	"sync"
	"time"
)

// Native side: the adversarial schedule "every write is delayed as long as possible".
// Store calls park in storeGate; MakeRoot runs in its own goroutine; parked writes are
// released one at a time only when nothing else makes progress. If MakeRoot returns
// while a write is still parked, writes were in flight at return.

var gate struct {
	mu      sync.Mutex
	on      bool
	waiting []chan struct{}
}

func storeGate(s *vStore) {
	gate.mu.Lock()
	if !gate.on {
		gate.mu.Unlock()
		return
	}
	ch := make(chan struct{})
	gate.waiting = append(gate.waiting, ch)
	gate.mu.Unlock()
	<-ch
}

func makeRootScheduled(t *Mast, st *vStore) (r *Root, err error, writesInFlightAtReturn bool) {
	gate.mu.Lock()
	gate.on = true
	gate.waiting = nil
	gate.mu.Unlock()
	done := make(chan struct{})
	go func() {
		defer close(done)
		r, err = t.MakeRoot(vctx)
	}()
	release := func() bool {
		gate.mu.Lock()
		defer gate.mu.Unlock()
		if len(gate.waiting) == 0 {
			return false
		}
		ch := gate.waiting[0]
		gate.waiting = gate.waiting[1:]
		close(ch)
		return true
	}
	returned := false
	idle := 0
	for !returned {
		select {
		case <-done:
			returned = true
		case <-time.After(15 * time.Millisecond):
			if release() {
				idle = 0
			} else {
				idle++
				if idle > 400 {
					panic("MakeRoot does not return and no write is pending (deadlock)")
				}
			}
		}
	}
	gate.mu.Lock()
	writesInFlightAtReturn = len(gate.waiting) > 0
	gate.on = false
	for _, ch := range gate.waiting {
		close(ch)
	}
	gate.waiting = nil
	gate.mu.Unlock()
	time.Sleep(5 * time.Millisecond)
	return
}

// Natively flush calls Store from many goroutines at once: the recording store is locked.
var storeMu sync.Mutex

func storeLock(s *vStore)   { storeMu.Lock() }
func storeUnlock(s *vStore) { storeMu.Unlock() }

// ... and NodeCache.Add from the same goroutines: the recording cache is locked too (without
// this, a wide flush loses cache entries natively and the native trace diverges).
var cacheMu sync.Mutex

func cacheLock(c *vCache)   { cacheMu.Lock() }
func cacheUnlock(c *vCache) { cacheMu.Unlock() }
