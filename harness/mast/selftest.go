package mast

import (
	"errors"
	"fmt"
	"sync"
)

// HarnessSelfTest: Go-semantics micro-cases. Every outcome is recorded as an assertion event
// and the check replays the same inputs natively: a difference between the engine's trace and
// the native one is an ENGINE-ERROR (exit 3). Each case is a pattern that once went wrong in
// the engine or that the library's code (or a plausible edit of it) relies on.

type selfInner struct {
	A []interface{}
	B []interface{}
	C []interface{}
}
type selfOuter struct {
	selfInner
	d, sh bool
	e     *int
	s     *string
}

// a keyed, partial composite literal assigned through a pointer: go/ssa takes the field
// addresses first, then stores the zero struct, then the fields
func selfFill(l string, o *selfOuter, n int) {
	*o = selfOuter{
		selfInner: selfInner{
			A: make([]interface{}, n),
			B: make([]interface{}, n),
			C: make([]interface{}, n+1),
		},
		s: &l,
	}
	for i := 0; i < n; i++ {
		o.A[i] = i
	}
}

type selfPair struct{ x, y int }

func selfRecover() (r int) {
	defer func() {
		if p := recover(); p != nil {
			r = 7
		}
	}()
	var s []int
	_ = s[3]
	return 1
}

func HarnessSelfTest() {
	n := int(verifNondetU8("n"))
	verifAssume(n >= 1 && n <= 3)

	var o selfOuter
	o.d, o.sh = true, true
	selfFill("x", &o, n)
	verifAssert("SELF.complit-through-pointer", len(o.A) == n && len(o.C) == n+1 && *o.s == "x" && !o.d && !o.sh && o.A[n-1] == n-1)

	// append into spare capacity aliases, append beyond capacity does not
	a := make([]int, 2, 4)
	b := append(a, 1)
	c := append(a, 2)
	verifAssert("SELF.append-alias", b[2] == 2 && c[2] == 2 && len(a) == 2)
	d := append(a[:2:2], 3)
	d[0] = 9
	verifAssert("SELF.append-realloc", a[0] == 0 && d[0] == 9 && cap(d) >= 3)

	// overlapping copy and the insert idiom
	s := []int{1, 2, 3, 4, 0}
	copy(s[n+1:], s[n:])
	s[n] = 42
	verifAssert("SELF.copy-overlap", s[n] == 42 && s[n+1] == n+1 && s[0] == 1)
	t := []int{1, 2, 3, 4}
	t = append(t[:n], t[n-1:]...)
	verifAssert("SELF.append-overlap", len(t) == 5 && t[n] == n && t[n-1] == n)

	// struct values are copied on assignment, pointers are not
	p := selfPair{1, 2}
	q := p
	q.x = 5
	pp := &p
	pp.y = 6
	verifAssert("SELF.struct-copy", p.x == 1 && p.y == 6 && q.x == 5 && q.y == 2)
	arr := [3]int{1, 2, 3}
	arr2 := arr
	arr2[0] = 8
	sl := arr[:]
	sl[1] = 9
	verifAssert("SELF.array-copy", arr[0] == 1 && arr[1] == 9 && arr2[0] == 8 && arr2[1] == 2)

	// closures capture variables, loop variables are per-iteration (go 1.22)
	var fs []func() int
	for i := 0; i < n; i++ {
		fs = append(fs, func() int { return i })
	}
	sum := 0
	for _, f := range fs {
		sum += f()
	}
	verifAssert("SELF.closure-loopvar", sum == n*(n-1)/2)

	// interface equality and nil-ness
	var e1 error
	var pe *selfPair
	var i1 interface{} = pe
	verifAssert("SELF.iface-nil", e1 == nil && i1 != nil && pe == nil)
	k2s := []string{"", "ab", "ac", "ad"}[n]
	var k1, k2 interface{} = "ab", k2s
	verifAssert("SELF.iface-eq", (k1 == k2) == (n == 1))
	w := fmt.Errorf("wrap: %w", ErrIterDone)
	verifAssert("SELF.errors-is", errors.Is(w, ErrIterDone) && w != ErrIterDone && errors.Unwrap(w) == ErrIterDone)

	// recover from a runtime panic in a deferred closure that sets a named result
	verifAssert("SELF.defer-recover", selfRecover() == 7)

	// maps: missing keys, delete, len
	m := map[string]int{"a": 1}
	m["b"] = n
	delete(m, "a")
	_, okA := m["a"]
	verifAssert("SELF.map", !okA && m["b"] == n && len(m) == 1)

	// sync.Map
	var sm sync.Map
	sm.Store("k", n)
	v, ok := sm.Load("k")
	_, ok2 := sm.Load("other")
	act, loaded := sm.LoadOrStore("k", 99)
	verifAssert("SELF.sync-map", ok && v.(int) == n && !ok2 && loaded && act.(int) == n)

	// integer conversions and shifts wrap like the machine
	u := uint8(200 + n)
	verifAssert("SELF.wrap", uint8(u+100) == uint8(44+n) && int8(u) < 0 && uint64(1)<<uint(60+n) != 0 && (uint32(1)<<31)<<uint(n) == 0)
	// select: default when nothing is ready, a ready receive, a send into free buffer space, default when full
	{
		ch := make(chan int, 1)
		got := -1
		select {
		case v := <-ch:
			got = v
		default:
			got = -2
		}
		ok1 := got == -2
		ch <- 7
		select {
		case v := <-ch:
			got = v
		default:
			got = -2
		}
		ok2 := got == 7
		sent := false
		select {
		case ch <- 9:
			sent = true
		default:
		}
		full := false
		select {
		case ch <- 10:
		default:
			full = true
		}
		last := <-ch
		verifAssert("SELF.select", ok1 && ok2 && sent && full && last == 9)
	}
}
