package mast

import (
	"context"
	"sync"
)

// lockedStore / lockedCache: the shared environment of C11 is itself race-free
// (mutex-protected), so that any race reported is on mast's own nodes.
type lockedStore struct {
	mu sync.Mutex
	s  *vStore
}

func (l *lockedStore) Store(ctx context.Context, name string, b []byte) error {
	l.mu.Lock()
	defer l.mu.Unlock()
	return l.s.Store(ctx, name, b)
}
func (l *lockedStore) Load(ctx context.Context, name string) ([]byte, error) {
	l.mu.Lock()
	defer l.mu.Unlock()
	return l.s.Load(ctx, name)
}
func (l *lockedStore) NodeURLPrefix() string { return "locked" }

type lockedCache struct {
	mu sync.Mutex
	c  *vCache
}

func (l *lockedCache) Add(key, value interface{}) {
	l.mu.Lock()
	defer l.mu.Unlock()
	l.c.Add(key, value)
}
func (l *lockedCache) Contains(key interface{}) bool {
	l.mu.Lock()
	defer l.mu.Unlock()
	return l.c.Contains(key)
}
func (l *lockedCache) Get(key interface{}) (interface{}, bool) {
	l.mu.Lock()
	defer l.mu.Unlock()
	return l.c.Get(key)
}

type c11Result struct {
	ks, vs  []uint64
	iterErr error
	opErr   [4]error
	opOK    [4]bool // expected success (for deletes)
}

// c11Worker applies OPS symbolic operations to its own tree, then iterates it.
func c11Worker(tag string, t *Mast, md *symModel, ops int, keys, vals []uint64, kinds []int, res *c11Result) *symModel {
	for i := 0; i < ops; i++ {
		k, v := keys[i], vals[i]
		switch kinds[i] {
		case 0:
			var out uint64
			_, res.opErr[i] = t.Get(vctx, symKey{k}, &out)
			res.opOK[i] = true
		case 1:
			res.opErr[i] = t.Insert(vctx, symKey{k}, v)
			res.opOK[i] = true
			md.put(k, v)
		case 2:
			f, mv := md.lookup(k)
			res.opErr[i] = t.Delete(vctx, symKey{k}, v)
			res.opOK[i] = verifAnd(f, mv == v)
			if res.opErr[i] == nil {
				md = md.clone()
				md.del(k)
			}
		case 3:
			_, res.opErr[i] = t.MakeRoot(vctx)
			res.opOK[i] = true
		}
	}
	res.ks, res.vs, res.iterErr = iterAll(t)
	return md
}

// C11: two goroutines, each with its own tree over shared (locked) store and cache.
//   MODE 0: both trees loaded from the same persisted root through the shared cache
//   MODE 1: one loaded tree and its clone
//   MODE 2: an in-memory (never persisted) tree and its clone
//   MODE 3: two clones of a clone of a loaded tree that has one un-flushed modification
func HarnessC11a() {
	N := verifBound("N")
	OPS := verifBound("OPS")
	bf := uint(verifBound("BF"))
	mode := verifBound("MODE")
	st := &lockedStore{s: newVStore("s1")}
	cache := &lockedCache{c: &vCache{}}
	cfg := symConfig(st, cache)
	fm := verifBoundOr("FMT", 0) // 0 binary, 1 v1marshaler (raw two-stage decode), 2 v1marshaler (registered types)
	cfg.UnmarshalerUsesRegisteredTypes = fm == 2
	base, err := NewRoot(&CreateRemoteOptions{BranchFactor: bf, NodeFormat: fmtOf(fm)}).LoadMast(vctx, cfg)
	verifAssert("C01.new.err", err == nil)
	md := &symModel{}
	buildAscending("build", base, md, N)
	if hreq := verifBound("HREQ"); hreq >= 0 && int(base.Height()) != hreq {
		verifAssume(false) // this run is restricted to base trees of the requested height
	}
	var t1, t2 *Mast
	if mode == 2 {
		t1 = base
	} else {
		r, err := base.MakeRoot(vctx)
		verifAssert("C01.makeroot.err", err == nil)
		if err != nil {
			return
		}
		if verifBoundOr("FRESHCACHE", 0) == 1 {
			// "restart": the shared cache is empty and fills by decoding what the trees load
			cache.c = &vCache{}
		}
		t1, err = r.LoadMast(vctx, cfg)
		verifAssert("C01.load.err", err == nil)
		if err != nil {
			return
		}
		if mode == 0 {
			t2, err = r.LoadMast(vctx, cfg)
			verifAssert("C01.load.err", err == nil)
			if err != nil {
				return
			}
		}
	}
	if mode == 3 {
		// two second-generation clones: the loaded tree gets one un-flushed modification, is cloned,
		// and the clone is cloned twice; the goroutines own the two siblings
		k0, v0 := verifNondetKey("k"), verifNondetVal("v")
		verifAssert("C01.insert.err", t1.Insert(vctx, symKey{k0}, v0) == nil)
		md.put(k0, v0)
		c1, err := t1.Clone(vctx)
		verifAssert("C01.clone.err", err == nil)
		a, err := c1.Clone(vctx)
		verifAssert("C01.clone.err", err == nil)
		b2, err := c1.Clone(vctx)
		verifAssert("C01.clone.err", err == nil)
		t1, t2 = &a, &b2
	}
	if t2 == nil {
		c, err := t1.Clone(vctx)
		verifAssert("C01.clone.err", err == nil)
		t2 = &c
	}
	// the operations of both goroutines are chosen before they start
	var keys, vals [2][]uint64
	var kinds [2][]int
	var kindSet []int // KINDS bitmask: 1 Get, 2 Insert, 4 Delete, 8 MakeRoot
	for k := 0; k < 4; k++ {
		if verifBound("KINDS")&(1<<uint(k)) != 0 {
			kindSet = append(kindSet, k)
		}
	}
	for g := 0; g < 2; g++ {
		for i := 0; i < OPS; i++ {
			keys[g] = append(keys[g], verifNondetKey("k"))
			vals[g] = append(vals[g], verifNondetVal("v"))
			kinds[g] = append(kinds[g], kindSet[verifChoose("kind", len(kindSet))])
		}
	}
	md1, md2 := md.clone(), md.clone()
	_ = kindSet
	var r1, r2 c11Result
	var wg sync.WaitGroup
	wg.Add(2)
	verifSched(true)
	go func() { defer wg.Done(); md1 = c11Worker("g1", t1, md1, OPS, keys[0], vals[0], kinds[0], &r1) }()
	go func() { defer wg.Done(); md2 = c11Worker("g2", t2, md2, OPS, keys[1], vals[1], kinds[1], &r2) }()
	wg.Wait()
	verifSched(false)
	for i := 0; i < OPS; i++ {
		verifAssert("C11.g1.op-result", (r1.opErr[i] == nil) == r1.opOK[i])
		verifAssert("C11.g2.op-result", (r2.opErr[i] == nil) == r2.opOK[i])
	}
	verifAssert("C11.g1.iter.err", r1.iterErr == nil)
	verifAssert("C11.g2.iter.err", r2.iterErr == nil)
	if r1.iterErr == nil {
		verifAssert("C11.g1.behaves-as-if-alone", seqMatches(r1.ks, r1.vs, md1))
	}
	if r2.iterErr == nil {
		verifAssert("C11.g2.behaves-as-if-alone", seqMatches(r2.ks, r2.vs, md2))
	}
}
