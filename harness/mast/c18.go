package mast

import "sync"

func symName(tag string, maxLen int) string {
	nl := 1 + verifChoose(tag+".len", maxLen)
	nb := make([]byte, nl)
	for i := range nb {
		c := verifNondetU8(tag)
		// the node-name alphabet (unpadded URL-safe base64)
		isAlpha := verifOr(verifOr(verifAnd(c >= 'A', c <= 'Z'), verifAnd(c >= 'a', c <= 'z')), verifOr(verifAnd(c >= '0', c <= '9'), verifOr(c == '-', c == '_')))
		verifAssume(isAlpha)
		nb[i] = c
	}
	return string(nb)
}

func symBytes(tag string, maxLen int) []byte {
	n := verifChoose(tag+".len", maxLen+1)
	b := make([]byte, n)
	for i := range b {
		b[i] = verifNondetU8(tag)
	}
	return b
}

// C18 (in-memory backend): the node-store contract, including first use of the
// nil map, symbolic (possibly equal) names, and two goroutines storing the same node.
func HarnessC18m() {
	s := NewInMemoryStore()
	name := symName("name", 2)
	b := symBytes("data", verifBound("LMAX"))
	_, err := s.Load(vctx, name)
	verifAssert("C18.mem.missing-name-errors", err != nil)
	switch verifChoose("scenario", 3) {
	case 0:
		verifAssert("C18.mem.store.err", s.Store(vctx, name, b) == nil)
		got, err := s.Load(vctx, name)
		verifAssert("C18.mem.roundtrip", verifAnd(err == nil, verifStrEq(string(got), string(b))))
		verifAssert("C18.mem.store-again.err", s.Store(vctx, name, b) == nil)
		got, err = s.Load(vctx, name)
		verifAssert("C18.mem.roundtrip-after-rewrite", verifAnd(err == nil, verifStrEq(string(got), string(b))))
	case 1:
		name2 := symName("name2", 2)
		b2 := symBytes("data2", 1)
		verifAssert("C18.mem.store.err", s.Store(vctx, name, b) == nil)
		_, err := s.Load(vctx, name2)
		verifAssert("C18.mem.other-name-missing-unless-same", (err != nil) == !verifStrEq(name, name2))
		verifAssert("C18.mem.store.err", s.Store(vctx, name2, b2) == nil)
		got, err := s.Load(vctx, name)
		want := b
		if name == name2 {
			want = b2
		}
		verifAssert("C18.mem.roundtrip-two-names", verifAnd(err == nil, verifStrEq(string(got), string(want))))
	case 2:
		var wg sync.WaitGroup
		var e1, e2 error
		wg.Add(2)
		verifSched(true)
		go func() { defer wg.Done(); e1 = s.Store(vctx, name, b) }()
		go func() { defer wg.Done(); e2 = s.Store(vctx, name, b) }()
		wg.Wait()
		verifSched(false)
		verifAssert("C18.mem.concurrent-store.err", e1 == nil && e2 == nil)
		got, err := s.Load(vctx, name)
		verifAssert("C18.mem.roundtrip-after-concurrent-stores", verifAnd(err == nil, verifStrEq(string(got), string(b))))
	}
}
