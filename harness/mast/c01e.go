package mast

// C01 (uncomparable values): the same history semantics with slice-typed values.
// Values are 1-byte slices; the model keeps the byte.
func HarnessC01e() {
	K := verifBound("K")
	bf := uint(verifBound("BF"))
	st := newVStore("s1")
	cfg := symConfig(st, nil)
	cfg.ValuesLike = []byte{}
	cfg.Unmarshal = bytesCodecUnmarshal
	cur, err := NewRoot(&CreateRemoteOptions{BranchFactor: bf}).LoadMast(vctx, cfg)
	verifAssert("C01.new.err", err == nil)
	md := &symModel{}
	for i := 0; i < K; i++ {
		k := verifNondetKey("k")
		vb := verifNondetU8("vbyte")
		val := []byte{vb}
		switch verifChoose("op", 3) {
		case 0:
			var ierr error
			p := verifPanics(func() { ierr = cur.Insert(vctx, symKey{k}, val) })
			verifAssert("C01.slice-values.insert-no-panic", !p)
			if p {
				return
			}
			verifAssert("C01.slice-values.insert.err", ierr == nil)
			md.put(k, uint64(vb))
		case 1:
			f, mv := md.lookup(k)
			var derr error
			p := verifPanics(func() { derr = cur.Delete(vctx, symKey{k}, val) })
			verifAssert("C01.slice-values.delete-no-panic", !p)
			if p {
				return
			}
			verifAssert("C01.slice-values.delete.result", (derr == nil) == verifAnd(f, mv == uint64(vb)))
			if derr == nil {
				md = md.clone()
				md.del(k)
			}
		case 2:
			r, err := cur.MakeRoot(vctx)
			verifAssert("C01.slice-values.makeroot.err", err == nil)
			if err != nil {
				return
			}
			cur, err = r.LoadMast(vctx, cfg)
			verifAssert("C01.slice-values.load.err", err == nil)
			if err != nil {
				return
			}
		}
		// battery: size and contents
		var ks, vs []uint64
		ierr := cur.Iter(vctx, func(kk, vv interface{}) error {
			ks = append(ks, kk.(symKey).id)
			b := vv.([]byte)
			if len(b) != 1 {
				verifAssert("C01.slice-values.value-shape", false)
				return nil
			}
			vs = append(vs, uint64(b[0]))
			return nil
		})
		verifAssert("C01.slice-values.iter.err", ierr == nil)
		verifAssert("C01.slice-values.contents", verifAnd(cur.Size() == md.size(), seqMatches(ks, vs, md)))
	}
}
