package mast

// Harness vocabulary: native side (replay of solver models against the
// natively compiled real code). Selected instead of verif_sym.go by the
// go test -overlay that the check driver writes.

import (
	"encoding/base64"
	"encoding/binary"
	"fmt"
	"runtime"
	"strings"

	blake2b "github.com/minio/blake2b-simd"
)

type verifVector struct {
	Harness string           `json:"harness"`
	Bounds  map[string]int64 `json:"bounds"`
	Nondet  []uint64         `json:"nondet"`
	Names   []string         `json:"names"`
	Layers  [][2]uint64      `json:"layers"`
	Sched   []uint64         `json:"sched"`
	Expect  []string         `json:"expect"`
}

type verifStop struct{ why string }

var vr struct {
	vec      *verifVector
	pos      int
	events   []string
	classes  []string // classes whose condition held at the failing assertion
	pending  []string
	failed   string
	diverged string
}

func vrReset(v *verifVector) {
	vr.vec = v
	vr.pos = 0
	vr.events = nil
	vr.classes = nil
	vr.pending = nil
	vr.failed = ""
	vr.diverged = ""
}

func vrNext(name string) uint64 {
	if vr.pos >= len(vr.vec.Nondet) {
		// beyond the model: unconstrained by the path, any value will do
		vr.pos++
		return 0
	}
	if vr.pos < len(vr.vec.Names) && vr.vec.Names[vr.pos] != name && vr.diverged == "" {
		vr.diverged = fmt.Sprintf("nondet #%d is %q natively but %q symbolically", vr.pos, name, vr.vec.Names[vr.pos])
	}
	v := vr.vec.Nondet[vr.pos]
	vr.pos++
	return v
}

func verifNondetU64(name string) uint64 { return vrNext(name) }
func verifNondetInt(name string) int    { return int(vrNext(name)) }
func verifNondetI64(name string) int64  { return int64(vrNext(name)) }
func verifNondetU8(name string) uint8   { return uint8(vrNext(name)) }
func verifNondetBool(name string) bool  { return uint8(vrNext(name)) != 0 }
func verifChoose(name string, n int) int {
	v := int(vrNext(name))
	if v < 0 || v >= n {
		panic(verifStop{"assume-false"})
	}
	return v
}
func verifBound(name string) int {
	v, ok := vr.vec.Bounds[name]
	if !ok {
		panic("bound not set: " + name)
	}
	return int(v)
}
func verifAssume(cond bool) {
	if !cond {
		panic(verifStop{"assume-false"})
	}
}
func verifAssert(label string, cond bool) {
	classes := vr.pending
	vr.pending = nil
	b := 0
	if cond {
		b = 1
	}
	vr.events = append(vr.events, fmt.Sprintf("assert:%s=%d", label, b))
	if !cond {
		vr.failed = label
		vr.classes = classes
		panic(verifStop{"assert-failed"})
	}
}
func verifClass(name string, cond bool) {
	if cond {
		vr.pending = append(vr.pending, name)
	}
}
func verifObserve(label string, v uint64) {
	vr.events = append(vr.events, fmt.Sprintf("observe:%s=%d", label, v))
}
func verifLayer(id uint64) uint8 {
	for _, l := range vr.vec.Layers {
		if l[0] == id {
			return uint8(l[1])
		}
	}
	return 0
}
func verifPanics(f func()) (panicked bool) {
	defer func() {
		if r := recover(); r != nil {
			if _, ok := r.(verifStop); ok {
				panic(r)
			}
			panicked = true
		}
	}()
	f()
	return false
}
func verifYield()        { runtime.Gosched() }
func verifSched(on bool) {}
func verifHashName(b []byte) string {
	d := blake2b.Sum256(b)
	return base64.RawURLEncoding.EncodeToString(d[:])
}
func verifIsNameOf(name string, b []byte) bool { return name == verifHashName(b) }
func verifStrEq(a, b string) bool               { return a == b }
func verifPutU64(b []byte, v uint64)            { binary.BigEndian.PutUint64(b, v) }
func verifGetU64(b []byte) uint64               { return binary.BigEndian.Uint64(b) }
func verifNote(s string)                        {}
func verifIte(c bool, a, b uint64) uint64 {
	if c {
		return a
	}
	return b
}
func verifIteB(c bool, a, b bool) bool {
	if c {
		return a
	}
	return b
}
func verifAnd(a, b bool) bool { return a && b }
func verifOr(a, b bool) bool  { return a || b }
func verifCmpU64(a, b uint64) int {
	if a < b {
		return -1
	}
	if a > b {
		return 1
	}
	return 0
}
func verifIfaceEq(a, b interface{}) bool { return verifDeepEq(a, b) }
func verifStrSame(a, b string) bool { return a == b }
func verifNondetKey(name string) uint64 { return vrNext(name) }
func verifNondetVal(name string) uint64 { return vrNext(name) }
func verifErrHas(err error, s string) bool {
	return err != nil && strings.Contains(err.Error(), s)
}
