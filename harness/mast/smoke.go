package mast

import (
	"context"
	"sync"
)

func HarnessSmoke1() {
	a := verifNondetU64("a")
	b := verifNondetU64("b")
	verifAssume(a < 10)
	verifAssert("commute", a+b == b+a)
	if a > 5 {
		verifAssert("gt5", a >= 6)
	} else {
		verifAssert("le5", a != 7)
	}
	verifAssert("bogus", a != 3)
}

func HarnessSmoke2() {
	ctx := context.Background()
	m := NewInMemory()
	k1 := uint(verifNondetU64("k1"))
	k2 := uint(verifNondetU64("k2"))
	verifAssume(k1 < 100)
	verifAssume(k2 < 100)
	err := m.Insert(ctx, k1, 1)
	verifAssert("ins1", err == nil)
	err = m.Insert(ctx, k2, 2)
	verifAssert("ins2", err == nil)
	if k1 == k2 {
		verifAssert("size1", m.Size() == 1)
	} else {
		verifAssert("size2", m.Size() == 2)
	}
	var v int
	ok, err := m.Get(ctx, k1, &v)
	verifAssert("get-ok", ok && err == nil)
	if k1 != k2 {
		verifAssert("get-v", v == 1)
	}
}

type smokeBox struct{ x, y int }

func HarnessSmoke3() {
	b := &smokeBox{}
	var wg sync.WaitGroup
	var mu sync.Mutex
	wg.Add(2)
	go func() { defer wg.Done(); b.x = 1; mu.Lock(); b.y++; mu.Unlock() }()
	go func() { defer wg.Done(); b.x = 2; mu.Lock(); b.y++; mu.Unlock() }()
	wg.Wait()
	verifAssert("y", b.y == 2)
}
