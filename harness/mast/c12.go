package mast

// C12: an operation that returns an error (injected Load / KeyCompare fault)
// leaves the tree unchanged, and succeeds when retried without the fault.
func HarnessC12a() {
	N := verifBound("N")
	PRE := verifBound("PRE") // successful modifications before the faulty call (mixed residency)
	F := verifBound("F")     // fault positions explored: 0..F-1 (position >= calls made = no fault)
	bf := uint(verifBound("BF"))
	st := newVStore("s1")
	cfg := symConfig(st, nil)
	faultsOn := false
	kind := verifChoose("faultkind", 2) // 0: Persist.Load fails, 1: KeyCompare fails
	at := verifChoose("faultat", F)
	nload, ncmp := 0, 0
	st.failLoad = func(n int, name string) bool {
		if !faultsOn || kind != 0 {
			return false
		}
		nload++
		return nload-1 == at
	}
	cfg.KeyCompare = func(a, b interface{}) (int, error) {
		if faultsOn && kind == 1 {
			ncmp++
			if ncmp-1 == at {
				return 0, errVStoreFault
			}
		}
		return a.(symKey).Order(b.(symKey)), nil
	}
	t, err := NewRoot(&CreateRemoteOptions{BranchFactor: bf}).LoadMast(vctx, cfg)
	verifAssert("C01.new.err", err == nil)
	md := &symModel{}
	buildAscending("build", t, md, N)
	r, err := t.MakeRoot(vctx)
	verifAssert("C01.makeroot.err", err == nil)
	if err != nil {
		return
	}
	if verifBoundOr("CACHE", 0) == 1 {
		// the re-loaded tree works through a node cache that starts empty (a restarted process): every node
		// is behind a Load once, and whatever a failed load leaves in the cache is met again afterwards
		cfg.NodeCache = mkCache(1)
	}
	t, err = r.LoadMast(vctx, cfg)
	verifAssert("C01.load.err", err == nil)
	if err != nil {
		return
	}
	t, md, _ = applyOps("pre", t, md, cfg, PRE, 2)
	probe := symKey{verifNondetKey("probe")}
	size0, height0 := t.Size(), t.Height()

	k, v := verifNondetKey("k"), verifNondetVal("v")
	var opsel []int // OPMASK: which of the 7 operations are tried (default all)
	for o := 0; o < 11; o++ {
		if verifBoundOr("OPMASK", 2047)&(1<<uint(o)) != 0 {
			opsel = append(opsel, o)
		}
	}
	op := opsel[verifChoose("op", len(opsel))]
	var other *Mast
	if op == 6 {
		// diff partner: an in-memory tree with one entry
		other, err = NewRoot(&CreateRemoteOptions{BranchFactor: bf}).LoadMast(vctx, cfg)
		verifAssert("C01.new.err", err == nil)
		err = other.Insert(vctx, symKey{k}, v)
		verifAssert("C01.insert.err", err == nil)
	}
	var navCur *Cursor // operations 7/8: one cursor, so that the retry is the same call on the same cursor
	if op == 7 || op == 8 {
		navCur, err = t.Cursor(vctx)
		verifAssert("C01.cursor.err", err == nil)
		if err != nil {
			return
		}
	}
	// operations 9/10: a cursor placed on an entry by a fault-free Ceil(k), then one Forward / Backward under fault,
	// retried on the same cursor: the retried step ends on the successor / predecessor of the entry it started from
	var navKey uint64
	navOn := false
	if op == 9 || op == 10 {
		navCur, err = t.Cursor(vctx)
		verifAssert("C01.cursor.err", err == nil)
		if err != nil {
			return
		}
		err = navCur.Ceil(vctx, symKey{k})
		verifAssert("C01.ceil.err", err == nil)
		if err != nil {
			return
		}
		if ck, _, ok := navCur.Get(); ok {
			navKey, navOn = ck.(symKey).id, true
		}
	}
	run := func() (err error) {
		switch op {
		case 9:
			return navCur.Forward(vctx)
		case 10:
			return navCur.Backward(vctx)
		case 7:
			return navCur.Min(vctx)
		case 8:
			return navCur.Max(vctx)
		case 0:
			return t.Insert(vctx, symKey{k}, v)
		case 1:
			return t.Delete(vctx, symKey{k}, v)
		case 2:
			var out uint64
			_, err = t.Get(vctx, symKey{k}, &out)
			return err
		case 3:
			return t.Iter(vctx, func(_, _ interface{}) error { return nil })
		case 4:
			_, err = t.Clone(vctx)
			return err
		case 5:
			c, err := t.Cursor(vctx)
			if err != nil {
				return err
			}
			if err = c.Ceil(vctx, symKey{k}); err != nil {
				return err
			}
			if err = c.Forward(vctx); err != nil {
				return err
			}
			return c.Backward(vctx)
		case 6:
			return t.DiffIter(vctx, other, func(_, _ bool, _, _, _ interface{}) (bool, error) { return true, nil })
		}
		return nil
	}
	f0, mv0 := md.lookup(k)
	faultsOn = true
	var ferr error
	panicked := verifPanics(func() { ferr = run() })
	faultsOn = false
	if panicked {
		// the statement is about calls that *return* an error; a panic raised because a callback
		// failed (validateNode panics on a KeyCompare error) is outside it
		verifNote("panicked-under-fault")
		return
	}
	injected := (kind == 0 && nload > at) || (kind == 1 && ncmp > at)
	if ferr == nil && (op == 0 || op == 1) {
		// the call reported success (the fault position may lie beyond the calls it made, or the
		// failure was not propagated): then it must have had its normal effect, and a version
		// persisted now records what is reachable
		if op == 0 {
			md.put(k, v)
		} else {
			md = md.clone()
			md.del(k)
		}
		// (Whether the *contents* are right when a fault fired and the call still reported success is
		// not judged: C12 speaks of calls that return an error. On the unchanged tree findNode drops a
		// KeyCompare error raised inside its sort.Search closure and goes on with the index found so
		// far; see DESIGN 12.4, "observed outside the properties".)
		if !injected {
			ks, vs, ierr := iterAll(t)
			verifAssert("C01.no-fault-fired.iter.err", ierr == nil)
			if ierr == nil {
				verifAssert("C01.no-fault-fired.contents", seqMatches(ks, vs, md))
			}
		}
		if pr, perr := t.MakeRoot(vctx); perr == nil {
			rep := checkShape(st, pr)
			verifAssert("C09.size-after-operation-under-fault", verifAnd(rep.complete, pr.Size == rep.entries))
		}
		return
	}
	if ferr != nil {
		verifNote("op-failed")
		// a valid delete of an absent / mismatching entry also errors; both cases must leave the tree alone
		verifClass("C12.delete-shrink-load-fails-after-removal", verifAnd(op == 1, verifErrHas(ferr, "shrink: ")))
		verifAssert("C12.size-unchanged", t.Size() == size0)
		verifClass("C12.delete-shrink-load-fails-after-removal", verifAnd(op == 1, verifErrHas(ferr, "shrink: ")))
		verifAssert("C12.height-unchanged", t.Height() == height0)
		var ks, vs []uint64
		var ierr error
		// reading the tree after the failed call must not blow up either (a panic here means the failed call left
		// something behind, e.g. in the node cache, that the fault-free view trips over)
		readPanicked := verifPanics(func() { ks, vs, ierr = iterAll(t) })
		verifAssert("C12.readable-after-error", !readPanicked)
		if readPanicked {
			return
		}
		verifAssert("C12.iter-after-error.err", ierr == nil)
		if ierr == nil {
			verifClass("C12.delete-shrink-load-fails-after-removal", verifAnd(op == 1, verifErrHas(ferr, "shrink: ")))
			verifClass("C12.insert-split-fails-after-target-mutated", verifAnd(op == 0, injected))
			verifAssert("C12.contents-unchanged", seqMatches(ks, vs, md))
		}
		if verifBoundOr("NOPROBE", 0) == 0 {
			var out uint64
			found, gerr := t.Get(vctx, probe, &out)
			ef, ev := md.lookup(probe.id)
			verifAssert("C12.get-after-error.err", gerr == nil)
			verifClass("C12.delete-shrink-load-fails-after-removal", verifAnd(op == 1, verifErrHas(ferr, "shrink: ")))
			verifClass("C12.insert-split-fails-after-target-mutated", verifAnd(op == 0, injected))
			verifAssert("C12.get-after-error", verifAnd(found == ef, verifOr(!ef, out == ev)))
		}
		if !injected {
			return // a genuine precondition failure (delete of an absent entry): nothing to retry
		}
		// retry without the fault: normal result
		rerr := run()
		switch op {
		case 1:
			verifClass("C12.delete-shrink-load-fails-after-removal", verifErrHas(ferr, "shrink: "))
			verifAssert("C12.retry-result", (rerr == nil) == verifAnd(f0, mv0 == v))
			if rerr == nil {
				md = md.clone()
				md.del(k)
			}
		default:
			verifClass("C12.insert-split-fails-after-target-mutated", op == 0)
			verifAssert("C12.retry-result", rerr == nil)
			if op == 0 {
				md.put(k, v)
			}
			if (op == 9 || op == 10) && rerr == nil && navOn {
				// where a fault-free step from navKey ends: the next larger / next smaller key, or off the end
				ksAll, _, kerr := iterAll(t)
				if kerr == nil {
					want, wantKey := false, uint64(0)
					for i, x := range ksAll {
						if x == navKey {
							if op == 9 && i+1 < len(ksAll) {
								want, wantKey = true, ksAll[i+1]
							}
							if op == 10 && i > 0 {
								want, wantKey = true, ksAll[i-1]
							}
						}
					}
					ck, _, cok := navCur.Get()
					at := true
					if cok && want {
						at = ck.(symKey).id == wantKey
					}
					verifAssert("C12.retried-step-position", verifAnd(cok == want, at))
				}
			}
			if (op == 7 || op == 8) && rerr == nil {
				// the retried navigation call ends where a fault-free one does: on the smallest / largest entry
				ck, _, cok := navCur.Get()
				ksAll, _, kerr := iterAll(t)
				if kerr == nil {
					want := len(ksAll) > 0
					at := true
					if cok && want {
						if op == 7 {
							at = ck.(symKey).id == ksAll[0]
						} else {
							at = ck.(symKey).id == ksAll[len(ksAll)-1]
						}
					}
					verifAssert("C12.retried-navigation-position", verifAnd(cok == want, at))
				}
			}
		}
		// C09 under faults: a version persisted after a failed (and retried) operation still records
		// the number of entries reachable from it
		if pr, perr := t.MakeRoot(vctx); perr == nil {
			rep := checkShape(st, pr)
			verifClass("C12.delete-shrink-load-fails-after-removal", verifAnd(op == 1, verifErrHas(ferr, "shrink: ")))
			verifAssert("C09.size-after-failed-operation", verifAnd(rep.complete, pr.Size == rep.entries))
			// ... and is a well-formed tree of the recorded height (levels, layers, ranges, order, counts)
			verifAssert("C09.shape-after-failed-operation", verifAnd(verifAnd(rep.levelsOK, rep.layersOK), verifAnd(verifAnd(rep.rangesOK, rep.orderOK), rep.countsOK)))
		}
		ks, vs, ierr = iterAll(t)
		verifAssert("C12.iter-after-retry.err", ierr == nil)
		if ierr == nil {
			verifClass("C12.delete-shrink-load-fails-after-removal", verifAnd(op == 1, verifErrHas(ferr, "shrink: ")))
			verifClass("C12.insert-split-fails-after-target-mutated", op == 0)
			verifAssert("C12.contents-after-retry", seqMatches(ks, vs, md))
		}
	}
}
