package mast

// Independent reader/writer of the v1.1.5binary node encoding (fixed 8-byte
// key and value bodies as produced by symMarshal) and a walker over the
// nodes reachable from a persisted root in a vStore. Shares no code with
// codec.go.

type pnode struct {
	name  string
	level int
	top   bool
	keys  []uint64
	vals  []uint64
	links []string // "" = no child; len == len(keys)+1 after normalisation
	raw   []byte
	rawLinks int // number of links as encoded (0 when trimmed)
}

func refUvarint(b []byte, pos int) (uint64, int, bool) {
	var x uint64
	var s uint
	for i := 0; i < 10; i++ {
		if pos+i >= len(b) {
			return 0, 0, false
		}
		c := b[pos+i]
		if c < 0x80 {
			return x | uint64(c)<<s, pos + i + 1, true
		}
		x |= uint64(c&0x7f) << s
		s += 7
	}
	return 0, 0, false
}

func refPutUvarint(b []byte, x uint64) []byte {
	for x >= 0x80 {
		b = append(b, byte(x)|0x80)
		x >>= 7
	}
	return append(b, byte(x))
}

// refDecode parses one v1.1.5binary node with 8-byte bodies.
func refDecode(b []byte) (keys, vals []uint64, links []string, ok bool) {
	pos := 0
	readU64s := func() ([]uint64, bool) {
		n, p, ok := refUvarint(b, pos)
		if !ok {
			return nil, false
		}
		pos = p
		out := make([]uint64, 0, int(n))
		for i := 0; i < int(n); i++ {
			l, p, ok := refUvarint(b, pos)
			if !ok || l != 8 || p+8 > len(b) {
				return nil, false
			}
			out = append(out, verifGetU64(b[p:p+8]))
			pos = p + 8
		}
		return out, true
	}
	if keys, ok = readU64s(); !ok {
		return
	}
	if vals, ok = readU64s(); !ok {
		return
	}
	n, p, ok2 := refUvarint(b, pos)
	if !ok2 {
		return nil, nil, nil, false
	}
	pos = p
	for i := 0; i < int(n); i++ {
		l, p, ok2 := refUvarint(b, pos)
		if !ok2 || p+int(l) > len(b) {
			return nil, nil, nil, false
		}
		links = append(links, string(b[p:p+int(l)]))
		pos = p + int(l)
	}
	if pos != len(b) && !refDecodeAllowTrailing {
		return nil, nil, nil, false
	}
	return keys, vals, links, true
}

// refDecodeAllowTrailing: accept bytes after a complete node (what a lenient reader does).
var refDecodeAllowTrailing = false

// refEncode is the published layout: uvarint count, then uvarint length + body
// per element, for keys, values, links; the link list is empty when every
// link is nil, and a nil link inside a non-empty list is the empty string.
func refEncode(keys, vals []uint64, links []string) []byte {
	var b []byte
	b = refPutUvarint(b, uint64(len(keys)))
	for _, k := range keys {
		b = refPutUvarint(b, 8)
		var tmp [8]byte
		verifPutU64(tmp[:], k)
		b = append(b, tmp[:]...)
	}
	b = refPutUvarint(b, uint64(len(vals)))
	for _, v := range vals {
		b = refPutUvarint(b, 8)
		var tmp [8]byte
		verifPutU64(tmp[:], v)
		b = append(b, tmp[:]...)
	}
	any := false
	for _, l := range links {
		if l != "" {
			any = true
		}
	}
	if !any {
		return refPutUvarint(b, 0)
	}
	b = refPutUvarint(b, uint64(len(links)))
	for _, l := range links {
		b = refPutUvarint(b, uint64(len(l)))
		b = append(b, l...)
	}
	return b
}

// persistV1: the store under inspection holds v1marshaler nodes (set by the harness for FMT != 0).
var persistV1 bool

// loadPNode fetches and decodes a stored node (nil when missing or undecodable).
func loadPNode(st *vStore, name string, level int, top bool) *pnode {
	i := st.find(name)
	if i < 0 {
		return nil
	}
	keys, vals, links, ok := refDecode(st.blobs[i])
	if persistV1 {
		// v1marshaler nodes in the harness marshaler's encoding (FMT=1/2 runs)
		keys, vals, links, ok = nil, nil, nil, false
		if kb, vb, ls, pok := symParseNode(st.blobs[i]); pok {
			ok = true
			for _, x := range kb {
				if len(x) != 8 {
					ok = false
				} else {
					keys = append(keys, verifGetU64(x))
				}
			}
			for _, x := range vb {
				if len(x) != 8 {
					ok = false
				} else {
					vals = append(vals, verifGetU64(x))
				}
			}
			links = ls
		}
	}
	if !ok {
		return nil
	}
	n := &pnode{name: name, level: level, top: top, keys: keys, vals: vals, raw: st.blobs[i], rawLinks: len(links)}
	if len(links) == 0 {
		links = make([]string, len(keys)+1)
	}
	n.links = links
	return n
}

// walkPersisted visits every node reachable from link (pre-order). It returns
// false if some reachable node is missing or cannot be decoded.
func walkPersisted(st *vStore, link string, level int, top bool, visit func(n *pnode)) bool {
	n := loadPNode(st, link, level, top)
	if n == nil {
		return false
	}
	visit(n)
	ok := true
	for _, l := range n.links {
		if l != "" {
			if !walkPersisted(st, l, level-1, false, visit) {
				ok = false
			}
		}
	}
	return ok
}

// reachable returns the names of all nodes reachable from the root link.
func reachable(st *vStore, r *Root) (names []string, complete bool) {
	if r.Link == nil {
		return nil, true
	}
	complete = walkPersisted(st, *r.Link, int(r.Height), true, func(n *pnode) { names = append(names, n.name) })
	return
}

func nameIn(name string, set []string) bool {
	for _, s := range set {
		if s == name {
			return true
		}
	}
	return false
}

func ipow(b uint64, e int) uint64 {
	r := uint64(1)
	for i := 0; i < e; i++ {
		r *= b
	}
	return r
}

// floorLog(bf, n): largest e with bf^e <= n (n >= 1)
func floorLog(bf, n uint64) int {
	e := 0
	p := bf
	for p <= n {
		e++
		p *= bf
	}
	return e
}

// shapeReport accumulates the C09 clauses over one persisted version as terms.
type shapeReport struct {
	levelsOK   bool // no node below level 0, level-0 nodes have no children
	countsOK   bool // n keys, n values, n+1 child slots (or a trimmed, empty link list)
	orderOK    bool // keys strictly ascending inside each node
	layersOK   bool // key layer == node level (>= for the top node)
	rangesOK   bool // child keys strictly between the neighbouring parent keys
	noEmptyOK  bool // no entry-less node other than single-child pass-through nodes
	entries    uint64
	maxLayer   uint64 // max layer over all keys (as a term)
	nodes      int
	complete   bool
}

func checkShape(st *vStore, r *Root) *shapeReport {
	rep := &shapeReport{levelsOK: true, countsOK: true, orderOK: true, layersOK: true, rangesOK: true, noEmptyOK: true, complete: true}
	if r.Link == nil {
		return rep
	}
	var rec func(link string, level int, top bool, hasLo bool, lo uint64, hasHi bool, hi uint64)
	rec = func(link string, level int, top bool, hasLo bool, lo uint64, hasHi bool, hi uint64) {
		n := loadPNode(st, link, level, top)
		if n == nil {
			rep.complete = false
			return
		}
		rep.nodes++
		if level < 0 {
			rep.levelsOK = false
			return
		}
		if len(n.vals) != len(n.keys) || len(n.links) != len(n.keys)+1 {
			rep.countsOK = false
			return
		}
		nchild := 0
		for _, l := range n.links {
			if l != "" {
				nchild++
			}
		}
		if level == 0 && nchild > 0 {
			rep.levelsOK = false
		}
		if len(n.keys) == 0 && nchild != 1 {
			rep.noEmptyOK = false
		}
		for i, k := range n.keys {
			rep.entries++
			l := uint64(verifLayer(k))
			rep.maxLayer = verifIte(l > rep.maxLayer, l, rep.maxLayer)
			if top {
				rep.layersOK = verifAnd(rep.layersOK, l >= uint64(level))
			} else {
				rep.layersOK = verifAnd(rep.layersOK, l == uint64(level))
			}
			if i > 0 {
				rep.orderOK = verifAnd(rep.orderOK, n.keys[i-1] < k)
			}
			if hasLo {
				rep.rangesOK = verifAnd(rep.rangesOK, lo < k)
			}
			if hasHi {
				rep.rangesOK = verifAnd(rep.rangesOK, k < hi)
			}
		}
		for i, l := range n.links {
			if l == "" {
				continue
			}
			cl, chl, ch, chh := hasLo, lo, hasHi, hi
			if i > 0 {
				cl, chl = true, n.keys[i-1]
			}
			if i < len(n.keys) {
				ch, chh = true, n.keys[i]
			}
			rec(l, level-1, false, cl, chl, ch, chh)
		}
	}
	rec(*r.Link, int(r.Height), true, false, 0, false, 0)
	return rep
}

// ruleHeight is the size/layer rule of C04: min(highest key layer, floor(log_bf(size-1))), 0 below two entries.
func ruleHeight(bf uint64, size uint64, maxLayer uint64) uint64 {
	if size < 2 {
		return 0
	}
	fl := uint64(floorLog(bf, size-1))
	return verifIte(maxLayer < fl, maxLayer, fl)
}
