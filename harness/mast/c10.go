package mast

func selU64(xs []uint64, i uint64) uint64 {
	var r uint64
	for j := range xs {
		r = verifIte(i == uint64(j), xs[j], r)
	}
	return r
}

// c10Tree builds the tree for the navigation harnesses.
//   MODE 0 in memory; 1 persisted and re-loaded; 2 never populated; 3 emptied by deletes; 4 emptied, persisted, re-loaded;
//   5 persisted, the in-process handle kept (its root is a name); 6 persisted and re-loaded through the writer's node cache
func c10Tree() (t *Mast, md *symModel, ks []uint64, vs []uint64, ok bool) {
	N := verifBound("N")
	bf := uint(verifBound("BF"))
	mode := verifBound("MODE")
	st := newVStore("s1")
	cfg := symConfig(st, nil)
	if mode == 6 {
		cfg = symConfig(st, &vCache{})
	}
	t, err := NewRoot(&CreateRemoteOptions{BranchFactor: bf}).LoadMast(vctx, cfg)
	verifAssert("C01.new.err", err == nil)
	md = &symModel{}
	ok = true
	switch mode {
	case 0, 1, 5, 6:
		ks = buildAscending("build", t, md, N)
		for _, k := range ks {
			_, v := md.lookup(k)
			vs = append(vs, v)
		}
	case 3, 4:
		eks := buildAscending("build", t, md, N)
		for _, k := range eks {
			_, v := md.lookup(k)
			err := t.Delete(vctx, symKey{k}, v)
			verifAssert("C01.delete.err", err == nil)
			md = md.clone()
			md.del(k)
		}
	}
	if mode == 5 {
		_, err := t.MakeRoot(vctx)
		verifAssert("C01.makeroot.err", err == nil)
		if err != nil {
			return nil, nil, nil, nil, false
		}
	}
	if mode == 1 || mode == 4 || mode == 6 {
		r, err := t.MakeRoot(vctx)
		verifAssert("C01.makeroot.err", err == nil)
		if err != nil {
			return nil, nil, nil, nil, false
		}
		t, err = r.LoadMast(vctx, cfg)
		verifAssert("C01.load.err", err == nil)
		if err != nil {
			return nil, nil, nil, nil, false
		}
	}
	return
}

// C10: cursor navigation against the sorted key sequence.
func HarnessC10a() {
	t, _, ks, vs, ok := c10Tree()
	if !ok {
		return
	}
	N := uint64(len(ks))
	S := verifBound("S")
	probe := symKey{verifNondetKey("probe")}
	c, err := t.Cursor(vctx)
	verifAssert("C10.cursor.err", err == nil)
	if err != nil {
		return
	}
	// pos = 1 + index in the sorted list; 0 = before the first, N+1 = past the last
	var pos uint64
	start := verifChoose("start", 3)
	var cerr error
	panicked := verifPanics(func() {
		switch start {
		case 0:
			cerr = c.Min(vctx)
		case 1:
			cerr = c.Max(vctx)
		case 2:
			cerr = c.Ceil(vctx, probe)
		}
	})
	verifAssert("C10.start.no-panic", !panicked)
	if panicked {
		return
	}
	verifAssert("C10.start.err", cerr == nil)
	switch start {
	case 0:
		pos = 1
		if N == 0 {
			pos = 0
		}
	case 1:
		pos = N
	case 2:
		pos = 1
		for _, k := range ks {
			pos += verifIte(k < probe.id, 1, 0)
		}
	}
	check := func(tag string) bool {
		var k, v interface{}
		var has bool
		p := verifPanics(func() { k, v, has = c.Get() })
		verifAssert("C10."+tag+".get-no-panic", !p)
		if p {
			return false
		}
		inside := verifAnd(pos >= 1, pos <= N)
		verifAssert("C10."+tag+".entry-iff-inside", has == inside)
		if has {
			verifAssert("C10."+tag+".key", verifAnd(k.(symKey).id == selU64(ks, pos-1), v.(uint64) == selU64(vs, pos-1)))
		}
		return has
	}
	if !check("start") && N > 0 {
		return
	}
	for i := 0; i < S; i++ {
		var serr error
		fwd := verifChoose("dir", 2) == 0
		p := verifPanics(func() {
			if fwd {
				serr = c.Forward(vctx)
			} else {
				serr = c.Backward(vctx)
			}
		})
		verifAssert("C10.step.no-panic", !p)
		if p {
			return
		}
		verifAssert("C10.step.err", serr == nil)
		if N == 0 {
			pos = 0 // a tree without entries: every position is "no entry"
		} else if fwd {
			pos++
		} else {
			pos--
		}
		if !check("step") && N > 0 {
			return
		}
	}
}

// C10 (SeekIter): iterate from a probe key, optionally stopping early with ErrIterDone.
func HarnessC10b() {
	t, md, ks, _, ok := c10Tree()
	if !ok {
		return
	}
	probe := symKey{verifNondetKey("probe")}
	var want uint64 // number of entries >= probe
	for _, k := range ks {
		want += verifIte(k >= probe.id, 1, 0)
	}
	stopAfter := verifChoose("stop", len(ks)+2) // len+1 = never
	var gk, gv []uint64
	var serr error
	p := verifPanics(func() {
		serr = t.SeekIter(vctx, probe, func(k, v interface{}) error {
			gk = append(gk, k.(symKey).id)
			gv = append(gv, v.(uint64))
			if len(gk) == stopAfter {
				return ErrIterDone
			}
			return nil
		})
	})
	verifAssert("C10.seek.no-panic", !p)
	if p {
		return
	}
	verifAssert("C10.seek.err", serr == nil)
	okSeq := true
	for i := range gk {
		f, v := md.lookup(gk[i])
		okSeq = verifAnd(okSeq, verifAnd(f, v == gv[i]))
		okSeq = verifAnd(okSeq, gk[i] >= probe.id)
		if i > 0 {
			okSeq = verifAnd(okSeq, gk[i-1] < gk[i])
		}
	}
	verifAssert("C10.seek.entries-correct-ascending-ge-probe", okSeq)
	// count: all entries >= probe, unless the callback stopped earlier
	exp := want
	if stopAfter >= 1 && stopAfter <= len(ks) {
		exp = verifIte(want < uint64(stopAfter), want, uint64(stopAfter))
	}
	if stopAfter == 0 {
		// never matches len(gk)==0 after an append: behaves like 'never stop'
		exp = want
	}
	verifAssert("C10.seek.count", uint64(len(gk)) == exp)
}
