package mast

// firstKeyIs: does the encoded node start with the given key?
func firstKeyIs(b []byte, k uint64) bool {
	keys, _, _, ok := refDecode(b)
	if !ok || len(keys) == 0 {
		return false
	}
	return keys[0] == k
}

func rootComplete(st *vStore, r *Root) bool {
	_, complete := reachable(st, r)
	return complete
}

// unstoredBelowInMemoryTop: the tree's top node is still an in-memory node, and somewhere below it
// (through in-memory nodes and stored ones alike) a child is named that the store does not hold.
// That is the state the open finding describes: flush replaces child pointers by names before the
// writes complete, so after a failed persist the tree can name children that were never written.
// A tree whose *root* has become an unstored name is not in this class.
func unstoredBelowInMemoryTop(t *Mast, st *vStore) bool {
	top, ok := t.root.(*mastNode)
	if !ok || top == nil {
		return false
	}
	var walk func(l interface{}) bool
	walk = func(l interface{}) bool {
		switch l := l.(type) {
		case string:
			return !walkPersisted(st, l, 0, false, func(*pnode) {})
		case *mastNode:
			if l == nil {
				return false
			}
			for _, c := range l.Link {
				if walk(c) {
					return true
				}
			}
		}
		return false
	}
	for _, c := range top.Link {
		if walk(c) {
			return true
		}
	}
	return false
}

// C03: a successfully returned root is complete and durable; store failures are
// reported; retries. Every schedule of flush's goroutines within the preemption
// bound is explored; the failing Store is the one whose node starts with a chosen key.
func HarnessC03a() {
	N := verifBound("N")
	bf := uint(verifBound("BF"))
	st := newVStore("s1")
	st.yieldInStore = true
	cfg := symConfig(st, mkCache(verifBound("CACHE")))
	t, err := NewRoot(&CreateRemoteOptions{BranchFactor: bf}).LoadMast(vctx, cfg)
	verifAssert("C01.new.err", err == nil)
	md := &symModel{}
	ks := buildAscending("build", t, md, N)
	probe := symKey{verifNondetKey("probe")}
	failIdx := verifChoose("failkey", N+1) // N = no fault
	faultsOn := true
	st.failStoreBytes = func(b []byte) bool {
		return faultsOn && failIdx < N && firstKeyIs(b, ks[failIdx])
	}
	r, err, inflight := makeRootScheduled(t, st)
	verifAssert("C03.no-write-in-flight-at-return", !inflight)
	if st.failed > 0 {
		verifAssert("C03.store-failure-is-reported", err != nil)
	}
	if err == nil {
		verifAssert("C03.returned-root-is-complete", rootComplete(st, r))
		checkStoreLog(st)
		return
	}
	verifNote("makeroot-failed")
	// the tree stays fully usable after the error
	faultsOn = false
	dangling := unstoredBelowInMemoryTop(t, st)
	ks2, vs2, ierr := iterAll(t)
	verifClass("C03.links-to-unstored-nodes-after-failed-persist", dangling)
	verifAssert("C03.usable-after-error.iter", ierr == nil)
	if ierr == nil {
		verifAssert("C03.usable-after-error.contents", seqMatches(ks2, vs2, md))
	}
	var out uint64
	_, gerr := t.Get(vctx, probe, &out)
	verifClass("C03.links-to-unstored-nodes-after-failed-persist", dangling)
	verifAssert("C03.usable-after-error.get", gerr == nil)
	// a second tree with the same contents, persisted through the same store and cache: success
	// only if complete (a failed write must not count as "already persisted")
	b, berr := NewRoot(&CreateRemoteOptions{BranchFactor: bf}).LoadMast(vctx, cfg)
	verifAssert("C01.new.err", berr == nil)
	for _, k := range ks {
		_, v := md.lookup(k)
		verifAssert("C01.insert.err", b.Insert(vctx, symKey{k}, v) == nil)
	}
	if rb, berr := b.MakeRoot(vctx); berr == nil {
		verifAssert("C03.second-tree-root-is-complete", rootComplete(st, rb))
	}
	// retry: success only if everything reachable really is in the store
	r2, err2 := t.MakeRoot(vctx)
	if err2 == nil {
		verifClass("C03.retry-succeeds-without-storing", st.failed > 0)
		verifAssert("C03.retry-root-is-complete", rootComplete(st, r2))
	}
}

// C03 (second configuration): a cache shared between two stores with different
// prefixes must not make the second store skip nodes.
func HarnessC03b() {
	N := verifBound("N")
	bf := uint(verifBound("BF"))
	cache := &vCache{}
	s1, s2 := newVStore("s1"), newVStore("s2")
	a, err := NewRoot(&CreateRemoteOptions{BranchFactor: bf}).LoadMast(vctx, symConfig(s1, cache))
	verifAssert("C01.new.err", err == nil)
	md := &symModel{}
	ks := buildAscending("build", a, md, N)
	ra, err := a.MakeRoot(vctx)
	verifAssert("C01.makeroot.err", err == nil)
	if err != nil {
		return
	}
	verifAssert("C03.returned-root-is-complete", rootComplete(s1, ra))
	b, err := NewRoot(&CreateRemoteOptions{BranchFactor: bf}).LoadMast(vctx, symConfig(s2, cache))
	verifAssert("C01.new.err", err == nil)
	for _, k := range ks {
		_, v := md.lookup(k)
		verifAssert("C01.insert.err", b.Insert(vctx, symKey{k}, v) == nil)
	}
	rb, err := b.MakeRoot(vctx)
	verifAssert("C01.makeroot.err", err == nil)
	if err != nil {
		return
	}
	verifAssert("C03.not-skipped-because-cached-for-another-store", rootComplete(s2, rb))
	verifAssert("C04.same-link", sameRoot(ra, rb))
}
