package mast

// C01: map semantics against the reference model, bounded histories from the empty tree.
func HarnessC01a() {
	K := verifBound("K")
	bf := uint(verifBound("BF"))
	st := newVStore("s1")
	cfg := symConfig(st, nil)
	cur, err := NewRoot(&CreateRemoteOptions{BranchFactor: bf}).LoadMast(vctx, cfg)
	verifAssert("new.err", err == nil)
	md := &symModel{}
	probe := symKey{verifNondetU64("probe")}
	for i := 0; i < K; i++ {
		switch verifChoose("op", 5) {
		case 0:
			k, v := verifNondetU64("k"), verifNondetU64("v")
			err := cur.Insert(vctx, symKey{k}, v)
			verifAssert("insert.err", err == nil)
			md.put(k, v)
		case 1:
			k, v := verifNondetU64("k"), verifNondetU64("v")
			f, mv := md.lookup(k)
			expectOK := verifAnd(f, mv == v)
			before := md
			err := cur.Delete(vctx, symKey{k}, v)
			verifAssert("delete.result", (err == nil) == expectOK)
			if err == nil {
				md = before.clone()
				md.del(k)
			}
		case 2:
			c, err := cur.Clone(vctx)
			verifAssert("clone.err", err == nil)
			cur = &c
		case 3:
			_, err := cur.MakeRoot(vctx)
			verifAssert("makeroot.err", err == nil)
		case 4:
			r, err := cur.MakeRoot(vctx)
			verifAssert("makeroot.err", err == nil)
			if err == nil {
				cur, err = r.LoadMast(vctx, cfg)
				verifAssert("load.err", err == nil)
			}
		}
		checkTree("step", cur, md, probe)
	}
}
