package mast

// C01: map semantics against the reference model, bounded histories from the
// empty tree; after every operation the observation battery (Size, full Iter,
// Get of one symbolic probe key of symbolic layer) is compared with the model.
func HarnessC01a() {
	K := verifBound("K")
	bf := uint(verifBound("BF"))
	st := newVStore("s1")
	var cache NodeCache
	if verifBound("CACHE") == 1 {
		cache = &vCache{}
	}
	cfg := symConfig(st, cache)
	cur, err := NewRoot(&CreateRemoteOptions{BranchFactor: bf}).LoadMast(vctx, cfg)
	verifAssert("C01.new.err", err == nil)
	md := &symModel{}
	probe := symKey{verifNondetKey("probe")}
	for i := 0; i < K; i++ {
		cur, md, _ = applyOps("h", cur, md, cfg, 1, 5)
		checkTree("step", cur, md, probe)
	}
}
