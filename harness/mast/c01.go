package mast

// C01: map semantics against the reference model, bounded histories from the
// empty tree; after every operation the observation battery (Size, full Iter,
// Get of one symbolic probe key of symbolic layer) is compared with the model.
func HarnessC01a() {
	K := verifBound("K")
	bf := uint(verifBound("BF"))
	st := newVStore("s1")
	var cache NodeCache
	if verifBound("CACHE") == 1 {
		cache = &vCache{}
	}
	cfg := symConfig(st, cache)
	fm := verifBoundOr("FMT", 0) // 0 binary, 1 v1marshaler (raw two-stage), 2 v1marshaler (registered types)
	cfg.UnmarshalerUsesRegisteredTypes = fm == 2
	cur, err := NewRoot(&CreateRemoteOptions{BranchFactor: bf, NodeFormat: fmtOf(fm)}).LoadMast(vctx, cfg)
	verifAssert("C01.new.err", err == nil)
	md := &symModel{}
	probe := symKey{verifNondetKey("probe")}
	var other *Mast // the handle left behind by the last clone / reload: it must keep its contents
	var mdOther *symModel
	for i := 0; i < K; i++ {
		prev, mdPrev := cur, md.clone()
		cur, md, _ = applyOps("h", cur, md, cfg, 1, 5)
		if cur != prev {
			other, mdOther = prev, mdPrev
		}
		checkTree("step", cur, md, probe)
		if other != nil {
			checkIterP("C01.left-behind-handle", other, mdOther, probe, false)
		}
	}
}
