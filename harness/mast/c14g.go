package mast

import "hash/crc64"

// C14g: frozen reference vectors (constant inputs through the interpreter).
// Sources: the published layout (uvarint counts/lengths, 8-byte big-endian
// bodies from the harness marshaler), the BLAKE2b-256 "abc" test vector, the
// CRC-64/XZ check value, and values computed once from the pinned tree with
// the real hash/crc64 and blake2b packages (engine/tools/golden.go).
func HarnessC14g() {
	type lv struct {
		v  uint64
		bf uint
		l  uint8
	}
	for _, g := range []lv{{0, 16, 0}, {1, 16, 0}, {16, 16, 1}, {48, 16, 1}, {256, 16, 2}, {4096, 16, 3}, {3, 3, 1}, {9, 3, 2}, {27, 3, 3}, {54, 3, 3},
		{1 << 63, 2, 63}, {1000000, 10, 6}, {1 << 60, 16, 15}, {7, 7, 1}, {6, 4, 0}} {
		verifAssert("C14.golden-uintLayer", uintLayer(g.v, g.bf) == g.l)
	}
	verifAssert("C14.golden-intLayer", intLayer(-16, 16) == 1 && intLayer(-1, 2) == 0 && intLayer(-27, 3) == 3 && intLayer(0, 5) == 0)
	verifAssert("C14.golden-crc", crc64.Checksum([]byte("hello"), crcTable) == 0x9b1edae5dbb937b1 && crc64.Checksum([]byte("mast"), crcTable) == 0xb890aaeb3a286ef0)
	verifAssert("C14.golden-stringLayer", stringLayer("hello", 16) == 0 && stringLayer("mast", 16) == 1 && stringLayer("mast", 2) == 4 && blobLayer([]byte("mast"), 16) == 1 && stringLayer("", 16) == 0)

	// a two-entry node of uint64 keys/values, persisted through the real code at the default
	// branch factor and format: bytes and name are frozen
	st := newVStore("s1")
	cfg := &RemoteConfig{KeysLike: uint64(0), ValuesLike: uint64(0), StoreImmutablePartsWith: st, Marshal: symMarshal, Unmarshal: symUnmarshal}
	t, err := NewRoot(nil).LoadMast(vctx, cfg)
	verifAssert("C01.new.err", err == nil)
	verifAssert("C01.insert.err", t.Insert(vctx, uint64(2), uint64(20)) == nil && t.Insert(vctx, uint64(1), uint64(10)) == nil)
	r, err := t.MakeRoot(vctx)
	verifAssert("C01.makeroot.err", err == nil)
	if err != nil {
		return
	}
	want := []byte{2, 8, 0, 0, 0, 0, 0, 0, 0, 1, 8, 0, 0, 0, 0, 0, 0, 0, 2, 2, 8, 0, 0, 0, 0, 0, 0, 0, 10, 8, 0, 0, 0, 0, 0, 0, 0, 20, 0}
	verifAssert("C14.golden-node-bytes", len(st.blobs) == 1 && string(st.blobs[0]) == string(want))
	verifAssert("C14.golden-node-name", r.Link != nil && *r.Link == "d2VVsKh9yvpKzQQHslYNX0oDpt3LXwztSv_6u2D9980")
	verifAssert("C14.golden-root-record", r.Size == 2 && r.Height == 0 && r.BranchFactor == 16 && r.NodeFormat == "v1.1.5binary")
	// the frozen bytes load in a fresh tree (a tree 'written by an earlier release')
	st2 := newVStore("s2")
	st2.Store(vctx, "d2VVsKh9yvpKzQQHslYNX0oDpt3LXwztSv_6u2D9980", want)
	cfg2 := *cfg
	cfg2.StoreImmutablePartsWith = st2
	name := "d2VVsKh9yvpKzQQHslYNX0oDpt3LXwztSv_6u2D9980"
	old := &Root{Link: &name, Size: 2, Height: 0, BranchFactor: 16, NodeFormat: "v1.1.5binary"}
	t2, err := old.LoadMast(vctx, &cfg2)
	verifAssert("C14.golden-loads", err == nil)
	if err == nil {
		var v uint64
		ok, err := t2.Get(vctx, uint64(2), &v)
		verifAssert("C14.golden-loads", err == nil && ok && v == 20)
	}
	verifAssert("C14.golden-hash", verifHashName([]byte("abc")) == "vd2BPGNCOXIxce8_7phXm5SWTjuxyz5CcmLIwGjVIxk")
}
