package mast

// C01 (built-in integer keys): histories over real uint64 / int64 keys, ordered by
// DefaultKeyCompare and layered by DefaultLayer (the real uintLayer / intLayer loops run on
// symbolic values); SIGNED=1 uses int64 keys drawn from [-2^(KW-1), 2^(KW-1)).
func HarnessC01d() {
	K := verifBound("K")
	bf := uint(verifBound("BF"))
	signed := verifBound("SIGNED") == 1
	st := newVStore("s1")
	cfg := &RemoteConfig{KeysLike: uint64(0), ValuesLike: uint64(0), StoreImmutablePartsWith: st, Marshal: intMarshal, Unmarshal: intUnmarshal}
	if signed {
		cfg.KeysLike = int64(0)
	}
	cur, err := NewRoot(&CreateRemoteOptions{BranchFactor: bf}).LoadMast(vctx, cfg)
	verifAssert("C01.new.err", err == nil)
	md := &symModel{} // keyed by the order-preserving image of the key
	mk := func(raw uint64) (interface{}, uint64) {
		if signed {
			s := int64(raw) - int64(uint64(1)<<uint(verifBound("KW")-1)) // centred: [-2^(KW-1), 2^(KW-1))
			return s, uint64(s) ^ (1 << 63) // order-preserving map of int64 into uint64
		}
		return raw, raw
	}
	for i := 0; i < K; i++ {
		key, img := mk(verifNondetKey("k"))
		v := verifNondetVal("v")
		switch verifChoose("op", 3) {
		case 0:
			verifAssert("C01.int-keys.insert.err", cur.Insert(vctx, key, v) == nil)
			md.put(img, v)
		case 1:
			f, mv := md.lookup(img)
			derr := cur.Delete(vctx, key, v)
			verifAssert("C01.int-keys.delete.result", (derr == nil) == verifAnd(f, mv == v))
			if derr == nil {
				md = md.clone()
				md.del(img)
			}
		case 2:
			r, err := cur.MakeRoot(vctx)
			verifAssert("C01.int-keys.makeroot.err", err == nil)
			if err != nil {
				return
			}
			cur, err = r.LoadMast(vctx, cfg)
			verifAssert("C01.int-keys.load.err", err == nil)
			if err != nil {
				return
			}
		}
		var ks, vs []uint64
		ierr := cur.Iter(vctx, func(kk, vv interface{}) error {
			if signed {
				ks = append(ks, uint64(kk.(int64))^(1<<63))
			} else {
				ks = append(ks, kk.(uint64))
			}
			vs = append(vs, vv.(uint64))
			return nil
		})
		verifAssert("C01.int-keys.iter.err", ierr == nil)
		verifAssert("C01.int-keys.contents", verifAnd(cur.Size() == md.size(), seqMatches(ks, vs, md)))
		pk, pimg := mk(verifNondetKey("probe"))
		var out uint64
		found, gerr := cur.Get(vctx, pk, &out)
		ef, ev := md.lookup(pimg)
		verifAssert("C01.int-keys.get", verifAnd(gerr == nil, verifAnd(found == ef, verifOr(!ef, out == ev))))
	}
}

func intMarshal(i interface{}) ([]byte, error) {
	switch v := i.(type) {
	case int64:
		b := make([]byte, 8)
		verifPutU64(b, uint64(v))
		return b, nil
	}
	return symMarshal(i)
}

func intUnmarshal(b []byte, out interface{}) error {
	if p, ok := out.(*int64); ok {
		if len(b) != 8 {
			return errSymCodec
		}
		*p = int64(verifGetU64(b))
		return nil
	}
	return symUnmarshal(b, out)
}
