package mast

type rangedNode struct {
	name         string
	hasLo, hasHi bool
	lo, hi       uint64
}

// nodesWithRanges lists the nodes of a persisted version with the key range each covers.
func nodesWithRanges(st *vStore, r *Root) []rangedNode {
	var out []rangedNode
	if r.Link == nil {
		return nil
	}
	var rec func(link string, level int, hasLo bool, lo uint64, hasHi bool, hi uint64)
	rec = func(link string, level int, hasLo bool, lo uint64, hasHi bool, hi uint64) {
		n := loadPNode(st, link, level, false)
		if n == nil {
			return
		}
		out = append(out, rangedNode{link, hasLo, hasHi, lo, hi})
		for i, l := range n.links {
			if l == "" {
				continue
			}
			cl, chl, ch, chh := hasLo, lo, hasHi, hi
			if i > 0 {
				cl, chl = true, n.keys[i-1]
			}
			if i < len(n.keys) {
				ch, chh = true, n.keys[i]
			}
			rec(l, level-1, cl, chl, ch, chh)
		}
	}
	rec(*r.Link, int(r.Height), false, 0, false, 0)
	return out
}

// inRange: k lies within the node's key range, bounds included: a modified key that *is* one of
// the neighbouring parent keys (a deleted separator) necessarily reshapes the node next to it.
func inRange(n rangedNode, k uint64) bool {
	ok := true
	if n.hasLo {
		ok = verifAnd(ok, n.lo <= k)
	}
	if n.hasHi {
		ok = verifAnd(ok, k <= n.hi)
	}
	return ok
}

// C13: incremental persist. V0 is persisted and re-loaded; a batch of symbolic
// modifications follows; the Store calls of the second persist are examined.
func HarnessC13a() {
	N := verifBound("N")
	B := verifBound("B")
	bf := uint(verifBound("BF"))
	st := newVStore("s1")
	cfg := symConfig(st, nil)
	fm := verifBoundOr("FMT", 0) // 0 binary, 1 v1marshaler (raw two-stage decode), 2 v1marshaler (registered types)
	cfg.UnmarshalerUsesRegisteredTypes = fm == 2
	persistV1 = fm != 0
	t0, err := NewRoot(&CreateRemoteOptions{BranchFactor: bf, NodeFormat: fmtOf(fm)}).LoadMast(vctx, cfg)
	verifAssert("C01.new.err", err == nil)
	md0 := &symModel{}
	if verifBoundOr("ASC", 0) == 1 {
		buildAscending("build", t0, md0, N)
	} else {
		t0, md0, _ = applyOps("build", t0, md0, cfg, N, 1)
	}
	r0, err := t0.MakeRoot(vctx)
	verifAssert("C01.makeroot.err", err == nil)
	if err != nil {
		return
	}
	// persisting again without any change: no writes, same root
	nst := st.nStore
	r0b, err := t0.MakeRoot(vctx)
	verifAssert("C01.makeroot.err", err == nil)
	if err != nil {
		return
	}
	verifAssert("C13.unmodified-no-writes", st.nStore == nst)
	verifAssert("C13.unmodified-same-root", sameRoot(r0, r0b))
	verifAssert("C13.clean-after-persist", !t0.IsDirty())
	// a clone of the clean tree is that version too: persisting it writes nothing and returns the same root
	if cl, cerr := t0.Clone(vctx); cerr == nil {
		nst = st.nStore
		rc, rerr := cl.MakeRoot(vctx)
		verifAssert("C01.makeroot.err", rerr == nil)
		if rerr == nil {
			verifAssert("C13.unmodified-clone-no-writes", st.nStore == nst)
			verifAssert("C13.unmodified-clone-same-root", sameRoot(r0, rc))
		}
	}

	cur := t0
	if verifBound("RELOAD") == 1 {
		cur, err = r0.LoadMast(vctx, cfg)
		verifAssert("C01.load.err", err == nil)
		if err != nil {
			return
		}
	}
	md := md0.clone()
	var touched []uint64
	changed := false
	nmods := 0
	heightStable := true
	for i := 0; i < B; i++ {
		k, v := verifNondetKey("k"), verifNondetVal("v")
		f, mv := md.lookup(k)
		if verifChoose("mod", 2) == 0 {
			err := cur.Insert(vctx, symKey{k}, v)
			verifAssert("C01.insert.err", err == nil)
			changed = verifOr(changed, !verifAnd(f, mv == v))
			md.put(k, v)
			touched = append(touched, k)
			nmods++
		} else {
			err := cur.Delete(vctx, symKey{k}, v)
			verifAssert("C01.delete.result", (err == nil) == verifAnd(f, mv == v))
			if err == nil {
				md = md.clone()
				md.del(k)
				changed = true
				touched = append(touched, k)
				nmods++
			}
		}
		if cur.Height() != r0.Height {
			heightStable = false // "as long as the height has not changed since that version"
		}
	}
	// contents equal to V0 on every touched key (untouched keys cannot differ)
	sameContent := true
	for _, k := range touched {
		f0, v0 := md0.lookup(k)
		f1, v1 := md.lookup(k)
		sameContent = verifAnd(sameContent, verifAnd(f0 == f1, verifOr(!f0, v0 == v1)))
	}
	if !cur.IsDirty() {
		verifClass("C13.isdirty-false-on-emptied-tree", verifAnd(cur.Size() == 0, r0.Size > 0))
		verifAssert("C13.clean-implies-unchanged", sameContent)
	}
	if cl, cerr := cur.Clone(vctx); cerr == nil {
		if !cl.IsDirty() {
			verifClass("C13.isdirty-false-on-emptied-tree", verifAnd(cur.Size() == 0, r0.Size > 0))
			verifAssert("C13.clone-clean-implies-unchanged", sameContent)
		}
	}
	h0 := cur.Height()
	old := nodesWithRanges(st, r0)
	nst = st.nStore
	logStart := len(st.storeLog)
	r1, err := cur.MakeRoot(vctx)
	verifAssert("C01.makeroot.err", err == nil)
	if err != nil {
		return
	}
	written := st.storeLog[logStart:]
	verifAssert("C13.unmodified-no-writes", verifOr(changed, len(written) == 0))
	verifAssert("C13.unmodified-same-root", verifOr(changed, sameRoot(r0, r1)))
	reach1, complete := reachable(st, r1)
	verifAssert("C03.complete", complete)
	for _, w := range written {
		verifAssert("C13.written-is-reachable", nameIn(w, reach1))
	}
	if r1.Height == r0.Height && h0 == r0.Height && heightStable {
		verifAssert("C13.write-count", len(written) <= (2*int(r1.Height)+2)*nmods)
		for _, o := range old {
			replaced := !nameIn(o.name, reach1)
			rewritten := nameIn(o.name, written)
			if replaced || rewritten {
				hit := false
				for _, k := range touched {
					hit = verifOr(hit, inRange(o, k))
				}
				verifAssert("C13.rewrite-only-in-range", hit)
			}
		}
	}
}

func sameRoot(a, b *Root) bool {
	if a.Size != b.Size || a.Height != b.Height || a.BranchFactor != b.BranchFactor || a.NodeFormat != b.NodeFormat {
		return false
	}
	if a.Link == nil || b.Link == nil {
		return a.Link == nil && b.Link == nil
	}
	return verifStrEq(*a.Link, *b.Link)
}
