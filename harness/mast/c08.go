package mast

var c08FormatIsV1 bool

// checkStoreLog asserts the C08 clauses over everything a vStore has been asked to store.
func checkStoreLog(st *vStore) {
	for i := range st.names {
		verifAssert("C08.name-is-hash-of-bytes", verifIsNameOf(st.names[i], st.blobs[i]))
	}
	verifAssert("C08.same-name-same-bytes", !st.conflict)
	if c08FormatIsV1 {
		return // the independent reader below knows the binary format only
	}
	for i := range st.names {
		keys, vals, links, ok := refDecode(st.blobs[i])
		verifAssert("C08.decodable", ok)
		if ok {
			verifAssert("C08.bytes-are-canonical-encoding", verifStrEq(string(refEncode(keys, vals, links)), string(st.blobs[i])))
		}
	}
	// child names embedded in written bytes are names under which a node was written
	closed := true
	for i := range st.blobs {
		_, _, links, ok := refDecode(st.blobs[i])
		if !ok {
			continue
		}
		for _, l := range links {
			if l != "" {
				closed = verifAnd(closed, memberTerm(l, st.names))
			}
		}
	}
	verifAssert("C08.child-names-are-names-of-written-nodes", closed)
}

// C08: every Store call in every history is content-addressed and canonically encoded.
func HarnessC08a() {
	K := verifBound("K")
	bf := uint(verifBound("BF"))
	st := newVStore("s1")
	st.checkConflicts = true
	var cache NodeCache
	if verifBound("CACHE") >= 1 {
		cache = &vCache{}
	}
	cfg := symConfig(st, cache)
	fm := verifBoundOr("FMT", 0) // 0 binary, 1 v1marshaler (raw two-stage decode), 2 v1marshaler (registered types)
	cfg.UnmarshalerUsesRegisteredTypes = fm == 2
	c08FormatIsV1 = fm != 0
	cur, err := NewRoot(&CreateRemoteOptions{BranchFactor: bf, NodeFormat: fmtOf(fm)}).LoadMast(vctx, cfg)
	verifAssert("C01.new.err", err == nil)
	md := &symModel{}
	if n0 := verifBoundOr("N0", 0); n0 > 0 {
		buildAscending("base", cur, md, n0)
	}
	cur, md, _ = applyOps("h", cur, md, cfg, K, 3)
	r1, err := cur.MakeRoot(vctx)
	verifAssert("C01.makeroot.err", err == nil)
	if err != nil {
		return
	}
	checkStoreLog(st)
	if r1.Link != nil {
		verifAssert("C08.root-name-is-name-of-a-written-node", memberTerm(*r1.Link, st.names))
	}
	// re-encoding: reload, persist again without touching anything -> same root name, nothing new
	n0 := len(st.names)
	t2, err := r1.LoadMast(vctx, cfg)
	verifAssert("C01.load.err", err == nil)
	if err != nil {
		return
	}
	r2, err := t2.MakeRoot(vctx)
	verifAssert("C01.makeroot2.err", err == nil)
	if err != nil {
		return
	}
	same := false
	if r1.Link == nil || r2.Link == nil {
		same = r1.Link == nil && r2.Link == nil
	} else {
		same = verifStrEq(*r1.Link, *r2.Link)
	}
	verifAssert("C08.reencode-same-root", same)
	verifAssert("C08.reencode-no-new-names", len(st.names) == n0)
	if verifBound("CACHE") != 1 {
		return // (CACHE=2: the store-side checks only, on longer histories)
	}
	// after a "restart" the cache is empty and fills by loading. One handle modifies a tree loaded
	// from r1; r1 loaded again through the same cache must still have r1's contents and name.
	cfg2 := symConfig(st, &vCache{})
	cfg2.UnmarshalerUsesRegisteredTypes = fm == 2
	if verifBoundOr("WRITERCACHE", 0) == 1 {
		// no restart: the cache still holds the node objects the writer built in memory
		cfg2 = cfg
	}
	a, err := r1.LoadMast(vctx, cfg2)
	verifAssert("C01.load.err", err == nil)
	if err != nil {
		return
	}
	k, v := verifNondetKey("k"), verifNondetVal("v")
	k2, v2 := verifNondetKey("k"), verifNondetVal("v")
	if verifBoundOr("DELFIRST", 0) == 1 {
		_ = a.Delete(vctx, symKey{k2}, v2) // may or may not hit
		verifAssert("C01.insert.err", a.Insert(vctx, symKey{k}, v) == nil)
	} else {
		verifAssert("C01.insert.err", a.Insert(vctx, symKey{k}, v) == nil)
		_ = a.Delete(vctx, symKey{k2}, v2) // may or may not hit
	}
	b, err := r1.LoadMast(vctx, cfg2)
	verifAssert("C01.load.err", err == nil)
	if err != nil {
		return
	}
	ks, vs, ierr := iterAll(b)
	verifAssert("C01.iter.err", ierr == nil)
	if ierr == nil {
		verifAssert("C08.same-root-name-same-contents", seqMatches(ks, vs, md))
	}
	r3, err := b.MakeRoot(vctx)
	verifAssert("C01.makeroot.err", err == nil)
	if err == nil {
		verifAssert("C08.unmodified-load-persists-under-the-same-name", sameRoot(r1, r3))
	}
}
