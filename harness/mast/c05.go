package mast

func fmtOf(i int) nodeFormat {
	if i == 0 {
		return V115Binary
	}
	return V1Marshaler
}

// C05: persist then load is the identity on the map, for both node formats and
// both v1marshaler decode paths, with and without a cache; the reloaded tree
// can be modified, persisted and reloaded again.
func HarnessC05a() {
	K := verifBound("K")
	K2 := verifBound("K2")
	bf := uint(verifBound("BF"))
	fm := verifBound("FMT") // 0 binary, 1 v1marshaler (raw two-stage), 2 v1marshaler (registered types)
	st := newVStore("s1")
	var cache NodeCache
	if verifBound("CACHE") == 1 {
		cache = &vCache{}
	}
	cfg := symConfig(st, cache)
	cfg.UnmarshalerUsesRegisteredTypes = fm == 2
	cur, err := NewRoot(&CreateRemoteOptions{BranchFactor: bf, NodeFormat: fmtOf(fm)}).LoadMast(vctx, cfg)
	verifAssert("C01.new.err", err == nil)
	md := &symModel{}
	probe := symKey{verifNondetKey("probe")}
	if n0 := verifBoundOr("N0", 0); n0 > 0 {
		buildAscending("base", cur, md, n0) // taller first version (height >= 1 from 3 entries on)
	}
	cur, md, _ = applyOps("h", cur, md, cfg, K, 2)
	for round := 0; round < 2; round++ {
		var r *Root
		var t2 *Mast
		var err error
		stage := 0
		panicked := verifPanics(func() {
			r, err = cur.MakeRoot(vctx)
			if err != nil {
				return
			}
			stage = 1
			t2, err = r.LoadMast(vctx, cfg)
			if err == nil {
				stage = 2
			}
		})
		verifAssert("C05.persist-and-reload-do-not-panic", !panicked)
		if panicked {
			return
		}
		verifAssert("C05.makeroot.err", stage >= 1)
		if stage < 1 {
			return
		}
		verifAssert("C05.load.err", stage >= 2)
		if stage < 2 {
			return
		}
		verifAssert("C05.size", t2.Size() == cur.Size())
		verifAssert("C05.height", t2.Height() == cur.Height())
		verifAssert("C05.bf", t2.BranchFactor() == cur.BranchFactor())
		verifAssert("C05.format", t2.nodeFormat == cur.nodeFormat)
		verifAssert("C05.root-format", r.NodeFormat == string(fmtOf(fm)))
		if round == 1 && fm == 0 { // (the independent node reader of the harness knows the binary format only)
			// "the reloaded tree can be modified and persisted again with all the same guarantees":
			// the version persisted from the modified reloaded tree has the canonical height
			rep := checkShape(st, r)
			verifAssert("C05.modified-reloaded-tree-persists-canonically", verifAnd(rep.complete, uint64(r.Height) == ruleHeight(uint64(bf), r.Size, rep.maxLayer)))
		}
		checkTreeP("C05.reloaded", t2, md, probe)
		// the source tree is still what it was
		checkTreeP("C05.source", cur, md, probe)
		if round == 1 || K2 == 0 {
			return
		}
		cur, md, _ = applyOps("h2", t2, md, cfg, K2, 2)
	}
}
