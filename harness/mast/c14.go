package mast

import "hash/crc64"

// ---- C14a: binary node encoding == published layout; decode(encode(n)) == n ----

func HarnessC14a() {
	nk := verifBound("NK") // entries in the node
	linkPat := verifChoose("linkpat", 1<<uint(nk+1))
	n := &mastNode{}
	var ks, vs []uint64
	var links []string
	for i := 0; i < nk; i++ {
		k, v := verifNondetU64("k"), verifNondetU64("v")
		ks, vs = append(ks, k), append(vs, v)
		n.Key = append(n.Key, symKey{k})
		n.Value = append(n.Value, v)
	}
	// NILV=1: any subset of the values is an untyped nil; the published layout writes what the
	// marshaler returns for it (length-prefixed like every other body), it does not special-case it
	nilMask := 0
	if verifBoundOr("NILV", 0) == 1 {
		nilMask = verifChoose("nilvals", 1<<uint(nk))
		for i := 0; i < nk; i++ {
			if nilMask&(1<<uint(i)) != 0 {
				n.Value[i] = nil
			}
		}
	}
	any := false
	for i := 0; i <= nk; i++ {
		if linkPat&(1<<uint(i)) != 0 {
			seed := []byte{byte(i), verifNondetU8("linkseed")}
			name := verifHashName(seed)
			links = append(links, name)
			n.Link = append(n.Link, name)
			any = true
		} else {
			links = append(links, "")
			n.Link = append(n.Link, nil)
		}
	}
	if !any && verifChoose("trim", 2) == 1 {
		n.Link = nil // what node.store passes when every link is nil
	}
	got, err := marshalMastNode(n, symMarshal)
	verifAssert("C14.encode.err", err == nil)
	want := refEncode(ks, vs, links)
	if !any && n.Link != nil {
		// untrimmed all-nil list is never produced by store(); layout still defined: count then empty strings
		want = refEncodeUntrimmed(ks, vs, links)
	}
	if nilMask != 0 {
		want = refEncodeNilVals(ks, vs, nilMask, links, !any && n.Link != nil)
	}
	verifAssert("C14.binary-layout", verifStrEq(string(got), string(want)))
	if nilMask != 0 {
		return // (what a nil body decodes to is the unmarshaler's business)
	}

	// decode side
	m := &Mast{zeroKey: symKey{}, zeroValue: uint64(0), unmarshal: symUnmarshal}
	var back mastNode
	derr := unmarshalMastNode(m, got, &back)
	verifAssert("C14.decode.err", derr == nil)
	if derr != nil {
		return
	}
	ok := len(back.Key) == nk && len(back.Value) == nk
	verifAssert("C14.decode.counts", ok)
	if !ok {
		return
	}
	same := true
	for i := 0; i < nk; i++ {
		same = verifAnd(same, verifAnd(back.Key[i].(symKey).id == ks[i], back.Value[i].(uint64) == vs[i]))
	}
	if n.Link == nil {
		same = verifAnd(same, len(back.Link) == 0)
	} else {
		same = verifAnd(same, len(back.Link) == nk+1)
		for i := 0; i <= nk && i < len(back.Link); i++ {
			if links[i] == "" {
				same = verifAnd(same, back.Link[i] == nil)
			} else {
				s, isStr := back.Link[i].(string)
				same = verifAnd(same, verifAnd(isStr, verifStrEq(s, links[i])))
			}
		}
	}
	verifAssert("C14.decode-is-inverse", same)
}

// refEncodeNilVals: the published layout with the values in nilMask spelled as the marshaler's "null".
func refEncodeNilVals(keys, vals []uint64, nilMask int, links []string, untrimmed bool) []byte {
	var b []byte
	b = refPutUvarint(b, uint64(len(keys)))
	for _, k := range keys {
		b = refPutUvarint(b, 8)
		var tmp [8]byte
		verifPutU64(tmp[:], k)
		b = append(b, tmp[:]...)
	}
	b = refPutUvarint(b, uint64(len(vals)))
	for i, v := range vals {
		if nilMask&(1<<uint(i)) != 0 {
			b = refPutUvarint(b, 4)
			b = append(b, "null"...)
			continue
		}
		b = refPutUvarint(b, 8)
		var tmp [8]byte
		verifPutU64(tmp[:], v)
		b = append(b, tmp[:]...)
	}
	any := false
	for _, l := range links {
		if l != "" {
			any = true
		}
	}
	if !any && !untrimmed {
		return refPutUvarint(b, 0)
	}
	b = refPutUvarint(b, uint64(len(links)))
	for _, l := range links {
		b = refPutUvarint(b, uint64(len(l)))
		b = append(b, l...)
	}
	return b
}

func refEncodeUntrimmed(keys, vals []uint64, links []string) []byte {
	b := refEncode(keys, vals, nil)
	b = b[:len(b)-1]
	b = refPutUvarint(b, uint64(len(links)))
	for _, l := range links {
		b = refPutUvarint(b, uint64(len(l)))
		b = append(b, l...)
	}
	return b
}

// ---- C14b: v1marshaler hands the bare Node to the user marshaler, Link nil iff all links nil ----

func HarnessC14b() {
	bf := uint(verifBound("BF"))
	st := newVStore("s1")
	cfg := symConfig(st, nil)
	sawNode, sawOther := 0, 0
	linkNilOK := true
	cfg.Marshal = func(i interface{}) ([]byte, error) {
		switch v := i.(type) {
		case Node:
			sawNode++
			allNil := true
			for _, l := range v.Link {
				if l != nil {
					allNil = false
				}
			}
			if allNil && v.Link != nil {
				linkNilOK = false
			}
			if !allNil && len(v.Link) != len(v.Key)+1 {
				linkNilOK = false
			}
		case symKey, uint64:
		default:
			sawOther++
		}
		return symMarshal(i)
	}
	t, err := NewRoot(&CreateRemoteOptions{BranchFactor: bf, NodeFormat: V1Marshaler}).LoadMast(vctx, cfg)
	verifAssert("C01.new.err", err == nil)
	md := &symModel{}
	buildAscending("build", t, md, verifBound("N"))
	_, err = t.MakeRoot(vctx)
	verifAssert("C01.makeroot.err", err == nil)
	verifAssert("C14.v1marshaler-passes-bare-Node", sawNode > 0 && sawOther == 0)
	verifAssert("C14.v1marshaler-link-list-nil-iff-all-nil", linkNilOK)
}

// ---- C14c: integer layers == largest e with bf^e | v (0 for v == 0) ----

func refULayer(v uint64, bf uint64) uint8 {
	if v == 0 {
		return 0
	}
	e := uint8(0)
	p := bf // bf^(e+1)
	for {
		if v%p != 0 {
			return e
		}
		e++
		hi := p * bf
		if hi/bf != p { // bf^(e+1) overflows: v < 2^64 cannot be divisible by it
			return e
		}
		p = hi
	}
}

func HarnessC14c() {
	bf := uint(verifBound("BF"))
	vmax := uint64(verifBound("VMAX")) // 0 = all 64-bit values
	v := verifNondetU64("v")
	if vmax != 0 {
		verifAssume(v < vmax)
	}
	if verifBound("SIGNED") == 1 {
		sv := int64(v)
		if vmax != 0 && verifNondetBool("neg") {
			sv = -sv
		}
		got := intLayer(sv, bf)
		mag := uint64(sv)
		if sv < 0 {
			mag = uint64(-sv) // bf^e | v iff bf^e | |v| ; MinInt64 maps to 2^63
		}
		verifAssert("C14.intLayer", got == refULayer(mag, uint64(bf)))
		l, err := DefaultLayer(nil)(sv, bf)
		verifAssert("C14.DefaultLayer-int64", err == nil && l == got)
		return
	}
	got := uintLayer(v, bf)
	verifAssert("C14.uintLayer", got == refULayer(v, uint64(bf)))
	l, err := DefaultLayer(nil)(v, bf)
	verifAssert("C14.DefaultLayer-uint64", err == nil && l == got)
}

// ---- C14d: CRC-64/ECMA table and step; blob/string layers ----

func refCRCTableEntry(i int) uint64 {
	const poly = 0xC96C5795D7870F42 // ECMA-182, reflected
	crc := uint64(i)
	for j := 0; j < 8; j++ {
		if crc&1 == 1 {
			crc = (crc >> 1) ^ poly
		} else {
			crc >>= 1
		}
	}
	return crc
}

func HarnessC14d() {
	for i := 0; i < 256; i++ {
		if crcTable[i] != refCRCTableEntry(i) {
			verifAssert("C14.crc-table-is-ECMA", false)
		}
	}
	verifAssert("C14.crc-table-is-ECMA", true)
	verifAssert("C14.crc-check-value", crc64.Checksum([]byte("123456789"), crcTable) == 0x995dc9bbdf1939fa)
	// one step of the table-driven update == one byte through the bitwise LFSR, from any state
	state := verifNondetU64("crcstate")
	bt := verifNondetU8("byte")
	got := crc64.Update(state, crcTable, []byte{bt})
	x := ^state ^ uint64(bt)
	for j := 0; j < 8; j++ {
		x = verifIte(x&1 == 1, (x>>1)^0xC96C5795D7870F42, x>>1)
	}
	verifAssert("C14.crc-step", got == ^x)
}

// blob / string layers are the integer layer of the CRC-64/ECMA checksum, for every 1-byte key
func HarnessC14d2() {
	bf := uint(verifBound("BF"))
	kb := verifNondetU8("keybyte")
	sum := crc64.Checksum([]byte{kb}, crcTable)
	verifAssert("C14.blobLayer", blobLayer([]byte{kb}, bf) == uintLayer(sum, bf))
	verifAssert("C14.stringLayer", stringLayer(string([]byte{kb}), bf) == uintLayer(sum, bf))
	l, err := DefaultLayer(nil)([]byte{kb}, bf)
	verifAssert("C14.DefaultLayer-bytes", err == nil && l == uintLayer(sum, bf))
	l, err = DefaultLayer(nil)(string([]byte{kb}), bf)
	verifAssert("C14.DefaultLayer-string", err == nil && l == uintLayer(sum, bf))
}

// ---- C14e: DefaultKeyCompare per built-in key type ----

func sgn(c bool, d bool) int { // c: a<b, d: a>b
	if c {
		return -1
	}
	if d {
		return 1
	}
	return 0
}

func HarnessC14e() {
	cmp := DefaultKeyCompare(symMarshal)
	a, b := verifNondetU64("a"), verifNondetU64("b")
	var x, y interface{}
	want := 0
	switch verifChoose("type", 7) {
	case 0:
		x, y, want = int(a), int(b), sgn(int(a) < int(b), int(a) > int(b))
	case 1:
		x, y, want = int64(a), int64(b), sgn(int64(a) < int64(b), int64(a) > int64(b))
	case 2:
		x, y, want = uint(a), uint(b), sgn(a < b, a > b)
	case 3:
		x, y, want = a, b, sgn(a < b, a > b)
	case 4, 5:
		// strings / byte slices of length 0..2 with symbolic bytes
		la, lb := verifChoose("la", 3), verifChoose("lb", 3)
		sa, sb := make([]byte, la), make([]byte, lb)
		for i := range sa {
			sa[i] = verifNondetU8("sa")
		}
		for i := range sb {
			sb[i] = verifNondetU8("sb")
		}
		// reference: lexicographic, shorter prefix first
		want = 0
		n := la
		if lb < n {
			n = lb
		}
		decided := false
		for i := 0; i < n; i++ {
			if decided {
				break
			}
			if sa[i] < sb[i] {
				want, decided = -1, true
			} else if sa[i] > sb[i] {
				want, decided = 1, true
			}
		}
		if !decided {
			want = sgn(la < lb, la > lb)
		}
		if verifChoose("strOrBytes", 2) == 0 {
			x, y = string(sa), string(sb)
		} else {
			x, y = sa, sb
		}
	case 6:
		// mismatched dynamic types must be an error, not an order
		x, y = int(a), uint(b)
		_, err := cmp(x, y)
		verifAssert("C14.compare-mismatch-errors", err != nil)
		_, err = cmp("s", []byte("s"))
		verifAssert("C14.compare-mismatch-errors", err != nil)
		return
	}
	got, err := cmp(x, y)
	verifAssert("C14.compare.err", err == nil)
	verifAssert("C14.compare-sign", got == want)
	rev, err := cmp(y, x)
	verifAssert("C14.compare.err", err == nil)
	verifAssert("C14.compare-antisymmetric", rev == -want)
}

// ---- C14f: defaults ----

func HarnessC14f() {
	r := NewRoot(nil)
	verifAssert("C14.default-bf-16", r.BranchFactor == 16)
	verifAssert("C14.default-format-binary", r.NodeFormat == "v1.1.5binary")
	verifAssert("C14.default-empty", r.Link == nil && r.Size == 0 && r.Height == 0)
	bf := uint(verifNondetU64("bf"))
	var nf nodeFormat
	switch verifChoose("fmt", 3) {
	case 1:
		nf = V1Marshaler
	case 2:
		nf = V115Binary
	}
	r = NewRoot(&CreateRemoteOptions{BranchFactor: bf, NodeFormat: nf})
	wantBF := bf
	if bf == 0 {
		wantBF = 16
	}
	verifAssert("C14.newroot-bf", r.BranchFactor == wantBF)
	wantF := "v1.1.5binary"
	if nf == V1Marshaler {
		wantF = "v1marshaler"
	}
	verifAssert("C14.newroot-format", r.NodeFormat == wantF)
	verifAssert("C14.format-constants", string(V1Marshaler) == "v1marshaler" && string(V115Binary) == "v1.1.5binary" && DefaultBranchFactor == 16)
	m := NewInMemory()
	verifAssert("C14.inmemory-defaults", m.branchFactor == 16 && m.growAfterSize == 16 && m.shrinkBelowSize == 1 && m.height == 0 && m.size == 0)
}

// ---- C14h: the length prefix is the unsigned LEB128 varint of the published format, for every
// length (the node-level harnesses only ever write lengths 0..8), and decodeLength is its inverse ----

func HarnessC14h() {
	n := verifNondetU64("n")
	verifAssume(n < 1<<31)
	got := appendLength(nil, int(n))
	want := refPutUvarint(nil, n)
	verifAssert("C14.length-prefix-is-uvarint", verifStrEq(string(got), string(want)))
	var back int
	rest, err := decodeLength(append(append([]byte{}, got...), 0xAA), &back)
	verifAssert("C14.length-prefix-decodes", err == nil && uint64(back) == n && len(rest) == 1)
}
