package mast

// C06p: entry diff over *pointer-typed* values. Two handles on versions that agree on most
// keys hold separately allocated, reflect.DeepEqual-equal values for them (every decode allocates
// anew): the diff must report exactly the keys whose presence or pointee differs.
func HarnessC06p() {
	N := verifBound("N")
	bf := uint(verifBound("BF"))
	st := newVStore("s1")
	cfg := symConfig(st, nil)
	cfg.ValuesLike = (*uint64)(nil)
	box := func(v uint64) *uint64 { p := new(uint64); *p = v; return p }
	old, err := NewRoot(&CreateRemoteOptions{BranchFactor: bf}).LoadMast(vctx, cfg)
	verifAssert("C01.new.err", err == nil)
	mdOld := &symModel{}
	var ks []uint64
	for i := 0; i < N; i++ {
		k, v := verifNondetKey("k"), verifNondetVal("v")
		if i > 0 {
			verifAssume(ks[i-1] < k)
		}
		verifAssert("C01.old.insert.err", old.Insert(vctx, symKey{k}, box(v)) == nil)
		mdOld.put(k, v)
		ks = append(ks, k)
	}
	rOld, err := old.MakeRoot(vctx)
	verifAssert("C01.makeroot.err", err == nil)
	if err != nil {
		return
	}
	// MODE 0: old = the writer's handle, new = re-loaded and modified in memory
	// MODE 1: both re-loaded (separately decoded), new modified and persisted and re-loaded again
	mode := verifBound("MODE")
	nw, err := rOld.LoadMast(vctx, cfg)
	verifAssert("C01.load.err", err == nil)
	if err != nil {
		return
	}
	if mode == 1 {
		old, err = rOld.LoadMast(vctx, cfg)
		verifAssert("C01.load.err", err == nil)
		if err != nil {
			return
		}
	}
	mdNew := mdOld.clone()
	k, v := verifNondetKey("k"), verifNondetVal("v")
	verifAssert("C01.new.insert.err", nw.Insert(vctx, symKey{k}, box(v)) == nil)
	mdNew.put(k, v)
	if mode == 1 {
		r, err := nw.MakeRoot(vctx)
		verifAssert("C01.makeroot.err", err == nil)
		if err != nil {
			return
		}
		nw, err = r.LoadMast(vctx, cfg)
		verifAssert("C01.load.err", err == nil)
		if err != nil {
			return
		}
	}
	var recs []diffRec
	err = nw.DiffIter(vctx, old, func(added, removed bool, key, av, rv interface{}) (bool, error) {
		r := diffRec{added: added, removed: removed, key: key.(symKey).id}
		if p, ok := av.(*uint64); ok && p != nil {
			r.av, r.hasAv = *p, true
		}
		if p, ok := rv.(*uint64); ok && p != nil {
			r.rv, r.hasRv = *p, true
		}
		recs = append(recs, r)
		return true, nil
	})
	verifAssert("C06.diffiter.err", err == nil)
	checkEntryDiff("C06.ptr", recs, mdOld, mdNew)
}
