package mast

// verifHarnesses lets the native replay find a harness by name.
var verifHarnesses = map[string]func(){
	"HarnessSmoke1": HarnessSmoke1,
	"HarnessSmoke2": HarnessSmoke2,
	"HarnessC01a":   HarnessC01a,
	"HarnessC04a":   HarnessC04a,
	"HarnessC18m":   HarnessC18m,
	"HarnessC14a":   HarnessC14a,
	"HarnessC14b":   HarnessC14b,
	"HarnessC14c":   HarnessC14c,
	"HarnessC14d":   HarnessC14d,
	"HarnessC14d2":  HarnessC14d2,
	"HarnessC14e":   HarnessC14e,
	"HarnessC14f":   HarnessC14f,
	"HarnessC14g":   HarnessC14g,
	"HarnessC19a":   HarnessC19a,
	"HarnessC12a":   HarnessC12a,
	"HarnessC10a":   HarnessC10a,
	"HarnessC10b":   HarnessC10b,
	"HarnessC06a":   HarnessC06a,
	"HarnessC07a":   HarnessC07a,
	"HarnessC02a":   HarnessC02a,
	"HarnessC05a":   HarnessC05a,
	"HarnessC08a":   HarnessC08a,
	"HarnessC13a":   HarnessC13a,
	"HarnessC16a":   HarnessC16a,
}
