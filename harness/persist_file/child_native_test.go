package file

import (
	"os"
	"testing"
)

// TestVerifChildStore is run in a child process by the native replay: it performs one
// Store under a file size limit and dies at the limit, as a crashing writer would.
func TestVerifChildStore(t *testing.T) {
	dir := os.Getenv("VERIF_CHILD_DIR")
	if dir == "" {
		t.Skip("not a replay child")
	}
	p := NewPersistForPath(dir)
	vfsStoreChild(func(name string, b []byte) error { return p.Store(vctx, name, b) })
}
