package file

// Harness vocabulary: symbolic side. These functions have no bodies; the
// engine intercepts calls to them. The native side is verif_native.go.

func verifNondetU64(name string) uint64
func verifNondetInt(name string) int
func verifNondetI64(name string) int64
func verifNondetU8(name string) uint8
func verifNondetBool(name string) bool
func verifChoose(name string, n int) int
func verifBound(name string) int
func verifAssume(cond bool)
func verifAssert(label string, cond bool)
func verifClass(name string, cond bool)
func verifObserve(label string, v uint64)
func verifLayer(id uint64) uint8
func verifPanics(f func()) bool
func verifYield()
func verifSched(on bool)
func verifHashName(b []byte) string
func verifIsNameOf(name string, b []byte) bool
func verifStrEq(a, b string) bool
func verifPutU64(b []byte, v uint64)
func verifGetU64(b []byte) uint64
func verifNote(s string)
func verifIte(c bool, a, b uint64) uint64
func verifAnd(a, b bool) bool
func verifOr(a, b bool) bool
func verifIfaceEq(a, b interface{}) bool
func verifCmpU64(a, b uint64) int
func verifIteB(c bool, a, b bool) bool
func verifStrSame(a, b string) bool
func verifNondetKey(name string) uint64
func verifNondetVal(name string) uint64
func verifErrHas(err error, s string) bool
func verifFSCrashAt(step int)
func verifFSWriteError(call int, after int)
func verifFSFailOp(kind string, n int)
func verifFSSteps() int
func verifFSDir() string
func verifCrashed() bool
func verifNative() bool
func vfsStore(name string, b []byte, store func(name string, b []byte) error) (err error, crashed bool)
func verifBoundOr(name string, def int) int
