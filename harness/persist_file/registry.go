package file

var verifHarnesses = map[string]func(){
	"HarnessC17a": HarnessC17a,
	"HarnessC18f": HarnessC18f,
}
