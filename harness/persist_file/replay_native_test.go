package file

import (
	"encoding/json"
	"fmt"
	"os"
	"reflect"
	"testing"
	"time"
)

func verifDeepEq(a, b interface{}) bool { return reflect.DeepEqual(a, b) }

type verifReplayResult struct {
	Index    int      `json:"index"`
	Harness  string   `json:"harness"`
	Outcome  string   `json:"outcome"` // ok | assert-failed | panic | assume-false
	Failed   string   `json:"failed,omitempty"`
	Classes  []string `json:"classes,omitempty"`
	Panic    string   `json:"panic,omitempty"`
	Events   []string `json:"events"`
	Diverged string   `json:"diverged,omitempty"`
}

func verifRunOne(i int, v *verifVector) (res verifReplayResult) {
	res.Index = i
	res.Harness = v.Harness
	vrReset(v)
	h := verifHarnesses[v.Harness]
	if h == nil {
		res.Outcome = "no-such-harness"
		return
	}
	defer func() {
		r := recover()
		res.Events = vr.events
		res.Diverged = vr.diverged
		switch r := r.(type) {
		case nil:
			res.Outcome = "ok"
		case verifStop:
			res.Outcome = r.why
			res.Failed = vr.failed
			res.Classes = vr.classes
		default:
			res.Outcome = "panic"
			res.Panic = fmt.Sprint(r)
		}
	}()
	h()
	return
}

func TestVerifReplay(t *testing.T) {
	path := os.Getenv("VERIF_REPLAY")
	if path == "" {
		t.Skip("VERIF_REPLAY not set")
	}
	raw, err := os.ReadFile(path)
	if err != nil {
		t.Fatal(err)
	}
	var vecs []*verifVector
	if err := json.Unmarshal(raw, &vecs); err != nil {
		t.Fatal(err)
	}
	var out []verifReplayResult
	for i, v := range vecs {
		// watchdog: a harness that hangs natively (deadlock, endless loop) must not hang the batch
		ch := make(chan verifReplayResult, 1)
		go func() { ch <- verifRunOne(i, v) }()
		select {
		case r := <-ch:
			out = append(out, r)
		case <-time.After(45 * time.Second):
			out = append(out, verifReplayResult{Index: i, Harness: v.Harness, Outcome: "timeout"})
			for j := i + 1; j < len(vecs); j++ {
				out = append(out, verifReplayResult{Index: j, Harness: vecs[j].Harness, Outcome: "native-unsupported"})
			}
			goto done
		}
	}
done:
	b, _ := json.MarshalIndent(out, "", " ")
	if p := os.Getenv("VERIF_REPLAY_OUT"); p != "" {
		os.WriteFile(p, b, 0644)
	} else {
		fmt.Println(string(b))
	}
}
