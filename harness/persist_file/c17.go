package file

import (
	"context"
	"sync"
)

var vctx = context.Background()

// storeUnderFault runs p.Store(name, b) under the fault the harness has armed. Natively the
// crash is a real one (child process killed by the kernel at the file size limit).
func storeUnderFault(p Persist, name string, b []byte) (err error, crashed bool) {
	if verifNative() {
		return vfsStore(name, b, func(n string, bb []byte) error { return p.Store(vctx, n, bb) })
	}
	panicked := verifPanics(func() { err = p.Store(vctx, name, b) })
	if panicked {
		if !verifCrashed() {
			verifAssert("C18.file-store-no-panic", false)
		}
		return nil, true
	}
	return err, false
}

func symBytes(tag string, maxLen int) []byte {
	n := verifChoose(tag+".len", maxLen+1)
	b := make([]byte, n)
	for i := range b {
		b[i] = verifNondetU8(tag)
	}
	return b
}

func bytesEq(a, b []byte) bool { return verifStrEq(string(a), string(b)) }

// C17: the file store never exposes or keeps a partial node.
// R faulty attempts (default 1) to write the same node, each cut at a symbolic point by a crash or
// an I/O error and followed by a restart and a Load; then a healthy write and a Load.
func HarnessC17a() {
	dir := verifFSDir()
	b := symBytes("data", verifBound("LMAX"))
	name := "n1"
	rounds := verifBoundOr("R", 1)
	p := NewPersistForPath(dir)
	for r := 0; r < rounds; r++ {
		kind := verifChoose("fault", 3) // 0 none, 1 crash at a step, 2 write error after k bytes
		switch kind {
		case 1:
			verifFSCrashAt(verifChoose("crashstep", len(b)+4))
		case 2:
			if len(b) == 0 {
				verifAssume(false) // a write of no bytes cannot be cut
			}
			verifFSWriteError(0, verifChoose("werr", len(b)))
		}
		serr, crashed := storeUnderFault(p, name, b)
		verifFSCrashAt(-1)
		verifFSWriteError(-1, 0)
		if kind == 0 {
			verifAssert("C17.healthy-store-succeeds", serr == nil && !crashed)
		}
		// "restart": a fresh Persist on the same directory -- always after a crash; after an I/O error
		// the process may also live on and keep using the Persist it has
		if crashed || verifChoose("restart", 2) == 1 {
			p = NewPersistForPath(dir)
		}
		p2 := p
		got, lerr := p2.Load(vctx, name)
		verifAssert("C17.load-after-cut-is-notfound-or-complete", lerr != nil || bytesEq(got, b))
		if serr == nil && !crashed {
			verifAssert("C17.success-is-complete", lerr == nil && bytesEq(got, b))
		}
	}
	// a later write of the same node repairs it
	p3 := p
	serr2 := p3.Store(vctx, name, b)
	verifAssert("C17.restore.err", serr2 == nil)
	got2, lerr2 := p3.Load(vctx, name)
	verifAssert("C17.restore-repairs", lerr2 == nil && bytesEq(got2, b))
}

// C18 (file backend): the node-store contract.
func HarnessC18f() {
	dir := verifFSDir()
	p := NewPersistForPath(dir)
	b := symBytes("data", verifBound("LMAX"))
	// names from the node-name alphabet, 1..2 symbolic characters
	nl := 1 + verifChoose("namelen", 2)
	nb := make([]byte, nl)
	for i := range nb {
		c := verifNondetU8("namebyte")
		verifAssume(c == '-' || c == '_' || (c >= '0' && c <= '9') || (c >= 'A' && c <= 'Z') || (c >= 'a' && c <= 'z'))
		nb[i] = c
	}
	name := string(nb)
	// a name never written does not load
	_, err := p.Load(vctx, name)
	verifAssert("C18.file.missing-name-errors", err != nil)
	scen := verifChoose("scenario", 6)
	if only := verifBoundOr("SCEN", -1); only >= 0 && scen != only {
		verifAssume(false)
	}
	switch scen {
	case 5: // several goroutines store the same node at the same time: all succeed, and it loads complete
		workers := 2
		if verifNative() {
			// the native scheduler cannot be steered to the engine's interleaving: the overlap is made
			// likely instead (a payload of several MiB, more writers); labels and verdicts are the same
			b = append(b, make([]byte, 8<<20)...)
			workers = 6
		}
		errs := make([]error, workers)
		// a writer whose Store has returned success can read the node back at once, whatever the others are doing
		ownOK := make([]bool, workers)
		var wg sync.WaitGroup
		wg.Add(workers)
		verifSched(true)
		for w := 0; w < workers; w++ {
			w := w
			go func() {
				defer wg.Done()
				q := NewPersistForPath(dir)
				errs[w] = q.Store(vctx, name, b)
				ownOK[w] = true
				if errs[w] == nil {
					got, lerr := q.Load(vctx, name)
					ownOK[w] = lerr == nil && bytesEq(got, b)
				}
			}()
		}
		wg.Wait()
		verifSched(false)
		allOK := true
		for _, e := range errs {
			allOK = allOK && e == nil
		}
		verifAssert("C18.file.concurrent-store.err", allOK)
		allOwn := true
		for _, o := range ownOK {
			allOwn = allOwn && o
		}
		verifAssert("C18.file.concurrent-store.success-is-readable-at-once", allOwn)
		got, err := p.Load(vctx, name)
		verifAssert("C18.file.concurrent-store.roundtrip", err == nil && bytesEq(got, b))
	case 4: // the write is cut short by an I/O error: either the error is returned or the node is fully there
		if len(b) == 0 {
			verifAssume(false)
		}
		verifFSWriteError(0, verifChoose("werr", len(b)))
		err, _ := storeUnderFault(p, name, b)
		verifFSWriteError(-1, 0)
		if err == nil {
			got, lerr := p.Load(vctx, name)
			verifAssert("C18.file.write-error-returned-or-stored", lerr == nil && bytesEq(got, b))
		}
	case 0: // round trip, then the same name and bytes again
		verifAssert("C18.file.store.err", p.Store(vctx, name, b) == nil)
		got, err := p.Load(vctx, name)
		verifAssert("C18.file.roundtrip", err == nil && bytesEq(got, b))
		verifAssert("C18.file.store-again.err", p.Store(vctx, name, b) == nil)
		got, err = p.Load(vctx, name)
		verifAssert("C18.file.roundtrip-after-rewrite", err == nil && bytesEq(got, b))
		// another name is unaffected / still missing
		other := name + "x"
		_, err = p.Load(vctx, other)
		verifAssert("C18.file.other-name-still-missing", err != nil)
	case 1: // backend errors are returned: Stat fails with something other than not-exist
		verifFSFailOp("stat", 0)
		err := p.Store(vctx, name, b)
		verifFSFailOp("stat", -1)
		if err == nil {
			got, lerr := p.Load(vctx, name)
			verifAssert("C18.file.stat-error-returned-or-stored", lerr == nil && bytesEq(got, b))
		}
	case 2: // read error is returned
		verifAssert("C18.file.store.err", p.Store(vctx, name, b) == nil)
		verifFSFailOp("read", 0)
		_, err := p.Load(vctx, name)
		verifFSFailOp("read", -1)
		verifAssert("C18.file.read-error-returned", err != nil)
	case 3: // create/rename/close errors are returned
		k := []string{"create", "rename", "close"}[verifChoose("op", 3)]
		verifFSFailOp(k, 0)
		err := p.Store(vctx, name, b)
		verifFSFailOp(k, -1)
		if err == nil {
			got, lerr := p.Load(vctx, name)
			verifAssert("C18.file.io-error-returned-or-stored", lerr == nil && bytesEq(got, b))
		}
	}
}
